#!/bin/sh
# runs every thorough check once (evidence not rewritten); usage: thorough_all.sh [budget seconds per check] [ids...]
cd "$(dirname "$0")/.."
b=${1:-600}; shift 2>/dev/null
ids="$*"; [ -z "$ids" ] && ids=$(ls props/c[0-9][0-9].py | sed 's/.*\/c\([0-9]*\).py/C\1/')
for id in $ids; do
  out=$(VERIF_BUDGET_S=$b VERIF_NO_EVIDENCE=1 VERIF_REPLAY_DIR=/tmp/thorough-replays ./check $id --tier thorough 2>&1); rc=$?
  echo "$id exit=$rc $(echo "$out" | tail -1)"; [ $rc -ne 0 ] && echo "$out" | grep -E "rule=|HARNESS" | head -5
done
