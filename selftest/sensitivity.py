"""Sensitivity self-test: apply each deliberate breakage to a scratch copy of
the library and require the property's check to report a violation.

usage: sensitivity.py [name-or-property-prefix ...]   (env VERIF_RUNS limits runs per check)
"""
import os
import shutil
import subprocess
import sys
import tempfile

VERIF = os.path.dirname(os.path.dirname(os.path.abspath(__file__)))
sys.path.insert(0, VERIF)
from selftest.mutants import MUTANTS  # noqa: E402

REPO = os.environ.get("VERIF_REPO", "/repo")


def main(argv):
    out_json = None
    if "--json" in argv:
        out_json = argv[argv.index("--json") + 1]
        argv = [a for a in argv if a not in ("--json", out_json)]
    sel = argv
    missed = []
    results = []
    for name, pid, rel, old, new in MUTANTS:
        if sel and not any(name.startswith(s) or pid == s for s in sel):
            continue
        d = tempfile.mkdtemp(prefix="pysomeip-mut-")
        try:
            shutil.copytree(os.path.join(REPO, "src"), os.path.join(d, "src"))
            p = os.path.join(d, "src", rel)
            s = open(p).read()
            if s.count(old) != 1:
                print(f"{name}: MUTANT DOES NOT APPLY ({s.count(old)} matches)")
                missed.append(name)
                continue
            open(p, "w").write(s.replace(old, new))
            env = dict(os.environ, VERIF_REPO=d, VERIF_NO_EVIDENCE="1")
            env.setdefault("VERIF_RUNS", "40000")
            cp = subprocess.run([os.path.join(VERIF, "check"), pid], env=env, capture_output=True, text=True, cwd=VERIF)
            rules = sorted({ln.split()[0] for ln in cp.stdout.splitlines() if ln.startswith("  rule=")})
            ok = cp.returncode == 1 and "VIOLATION" in cp.stdout
            print(f"{name}: {pid} exit={cp.returncode} {'DETECTED' if ok else 'MISSED'} {' '.join(rules)}")
            if cp.returncode == 2:
                print("   ", cp.stderr.strip().splitlines()[-1:] )
            results.append({"mutant": name, "property": pid, "file": rel, "detected": ok, "exit": cp.returncode, "rules": [r[5:] for r in rules]})
            if not ok:
                missed.append(name)
        finally:
            shutil.rmtree(d, ignore_errors=True)
    print("missed:", missed)
    if out_json:
        import json

        json.dump(results, open(out_json, "w"), indent=1)
    return 1 if missed else 0


if __name__ == "__main__":
    sys.exit(main(sys.argv[1:]))
