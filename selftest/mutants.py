"""Deliberate breakages (design §6 'S' lists): (name, property, file, old, new).
Each is applied to a scratch copy of /repo/src; the property's check must
report a violation. None of these is ever applied to /repo."""

SD = "someip/sd.py"
SV = "someip/service.py"
HD = "someip/header.py"

MUTANTS = [
    # ---------------- C05
    ("m05a-expired-deferred", "C05", SD,
     "        # called immediately, see stop()\n        callback(entry, address)\n\n    def entries",
     "        asyncio.get_event_loop().call_soon(callback, entry, address)\n\n    def entries"),
    ("m05b-refresh-no-cancel", "C05", SD,
     "            _, old_timeout_handle = self.store[address].pop(entry)\n            if old_timeout_handle:\n                old_timeout_handle.cancel()",
     "            _, old_timeout_handle = self.store[address].pop(entry)"),
    ("m05c-stop-no-pop", "C05", SD,
     "            callback, _timeout_handle = self.store[address].pop(entry)\n        except KeyError:\n            # race-condition: service was already stopped",
     "            callback, _timeout_handle = self.store[address][entry]\n        except KeyError:\n            # race-condition: service was already stopped"),
    ("m05d-connlost-no-stopall", "C05", SD,
     "    def connection_lost(self, exc: typing.Optional[Exception]) -> None:\n        self.found_services.stop_all()",
     "    def connection_lost(self, exc: typing.Optional[Exception]) -> None:\n        pass"),
    ("m05e-offer-deferred", "C05", SD,
     "                self.discovery.handle_offer(entry, addr)\n                continue",
     "                asyncio.get_event_loop().call_soon(self.discovery.handle_offer, entry, addr)\n                continue"),
    ("m05f-reboot-deferred", "C05", SD,
     "        self.subscriber.reboot_detected(addr)\n        self.discovery.reboot_detected(addr)\n        self.announcer.reboot_detected(addr)",
     "        asyncio.get_event_loop().call_soon(self.subscriber.reboot_detected, addr)\n        asyncio.get_event_loop().call_soon(self.discovery.reboot_detected, addr)\n        asyncio.get_event_loop().call_soon(self.announcer.reboot_detected, addr)"),
    ("m05g-watch-replay-deferred", "C05", SD,
     "                if service.matches_service(s):\n                    listener.service_offered(s, addr)",
     "                if service.matches_service(s):\n                    asyncio.get_event_loop().call_soon(listener.service_offered, s, addr)"),
    # ---------------- C06
    ("m06a-reboot-after-entries", "C06", SD,
     "        if self.session_storage.check_received(\n            addr, multicast, sdhdr.flag_reboot, someip_message.session_id\n        ):\n            self.reboot_detected(addr)\n\n        # FIXME this will drop the SD Endpoint options, since they are not referenced by\n        # entries. see 4.2.1 TR_SOMEIP_00548\n        sdhdr_resolved = sdhdr.resolve_options()\n        self.sd_message_received(sdhdr_resolved, addr, multicast)",
     "        rebooted = self.session_storage.check_received(\n            addr, multicast, sdhdr.flag_reboot, someip_message.session_id\n        )\n        sdhdr_resolved = sdhdr.resolve_options()\n        self.sd_message_received(sdhdr_resolved, addr, multicast)\n        if rebooted:\n            self.reboot_detected(addr)"),
    ("m06b-record-before-ask", "C06", SD,
     "        except KeyError:\n            # pop failed => new entry\n            callback_new(entry, address)\n\n        timeout_handle = None\n        if ttl != TTL_FOREVER:\n            timeout_handle = asyncio.get_event_loop().call_later(\n                ttl, self._expired, address, entry\n            )\n\n        self.store[address][entry] = (callback_expired, timeout_handle)",
     "        except KeyError:\n            # pop failed => new entry\n            self.store[address][entry] = (callback_expired, None)\n            callback_new(entry, address)\n\n        timeout_handle = None\n        if ttl != TTL_FOREVER:\n            timeout_handle = asyncio.get_event_loop().call_later(\n                ttl, self._expired, address, entry\n            )\n\n        self.store[address][entry] = (callback_expired, timeout_handle)"),
    ("m06c-no-ttl-restart", "C06", SD,
     "        try:\n            _, old_timeout_handle = self.store[address].pop(entry)\n            if old_timeout_handle:\n                old_timeout_handle.cancel()\n        except KeyError:",
     "        try:\n            if entry in self.store[address]:\n                return\n            _, old_timeout_handle = self.store[address].pop(entry)\n        except KeyError:"),
    ("m06d-instance-reboot-ignored", "C06", SD,
     "    def reboot_detected(self, addr: _T_SOCKADDR) -> None:\n        self.subscriptions.stop_all_for_address(addr)",
     "    def reboot_detected(self, addr: _T_SOCKADDR) -> None:\n        pass"),
    ("m06e-stop-keeps-subscriptions", "C06", SD,
     "            self._send_offer(stop=True)\n\n        self.subscriptions.stop_all()",
     "            self._send_offer(stop=True)"),
    # ---------------- C09
    ("m09a-refresh-no-cancel", "C09", SD,
     "            _, old_timeout_handle = self.store[address].pop(entry)\n            if old_timeout_handle:\n                old_timeout_handle.cancel()",
     "            _, old_timeout_handle = self.store[address].pop(entry)"),
    ("m09b-stop-no-cancel", "C09", SD,
     "        if _timeout_handle:\n            _timeout_handle.cancel()\n\n        # this must be called immediately",
     "        # this must be called immediately"),
    ("m09c-forever-armed", "C09", SD,
     "        if ttl != TTL_FOREVER:\n            timeout_handle",
     "        if True:\n            timeout_handle"),
    ("m09d-one-second-early", "C09", SD,
     "                ttl, self._expired, address, entry",
     "                max(ttl - 1, 0.5), self._expired, address, entry"),
    ("m09e-stopall-no-cancel", "C09", SD,
     "        for entry, (callback, handle) in entries:\n            if handle:\n                handle.cancel()",
     "        for entry, (callback, handle) in entries:"),
    ("m09f-expiry-late", "C09", SD,
     "                ttl, self._expired, address, entry",
     "                ttl + 0.01, self._expired, address, entry"),
]
