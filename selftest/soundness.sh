#!/bin/sh
# soundness sweep: every claimed quick check must exit 0 on the current tree for many seeds
# usage: soundness.sh FIRST LAST [ids...]
cd "$(dirname "$0")/.."
first=${1:-1}; last=${2:-20}; shift 2 2>/dev/null
ids="$*"
[ -z "$ids" ] && ids=$(ls props/c[0-9][0-9].py | sed 's/.*\/c\([0-9]*\).py/C\1/')
bad=0
for s in $(seq $first $last); do
  for id in $ids; do
    out=$(VERIF_SEED=$s VERIF_NO_EVIDENCE=1 VERIF_REPLAY_DIR=${VERIF_REPLAY_DIR:-/tmp/soundness-replays} ./check $id 2>&1); rc=$?
    if [ $rc -ne 0 ]; then bad=$((bad+1)); echo "SEED $s $id exit=$rc"; echo "$out" | grep -E "rule=|HARNESS|VIOLATION" | head -5; fi
  done
  echo "seed $s done, bad=$bad"
done
echo "TOTAL BAD: $bad"
