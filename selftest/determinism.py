"""Determinism self-test: each plan is executed twice in this interpreter and
once more in a fresh interpreter (and again under another PYTHONHASHSEED); the
event-log digests must agree (verdicts must agree under the other hash seed)."""
import glob
import hashlib
import json
import os
import subprocess
import sys

VERIF = os.path.dirname(os.path.dirname(os.path.abspath(__file__)))
sys.path.insert(0, VERIF)


def props():
    return sorted(os.path.basename(p)[:-3].upper() for p in glob.glob(os.path.join(VERIF, "props", "c[0-9][0-9].py")))


def digests(pid, seed, n, stride):
    from sim import runner

    prop = runner.load_prop(pid)
    n = min(n, getattr(prop, "SELFTEST_N", n))
    total, _ = prop.budget("quick")
    out = []
    for j in range(n):
        idx = (j * stride) % total
        plan = prop.gen(seed, idx, "quick")
        if plan is None:
            continue
        v, r = runner.run_plan(prop, plan)
        verdict = sorted((rule, json.dumps(d, sort_keys=True, default=str)) for rule, d in v["violations"])
        out.append((idx, r.sim.digest(), hashlib.sha256(repr(verdict).encode()).hexdigest()[:12]))
    return out


def main(argv):
    n = int(argv[0]) if argv else 40
    seed = int(os.environ.get("VERIF_SEED", "20260926"))
    if len(argv) > 1 and argv[1] == "--child":
        pid = argv[2]
        print(json.dumps(digests(pid, seed, n, int(argv[3]))))
        return 0
    total_bad = 0
    for pid in props():
        bad = 0
        stride = 7919
        a = digests(pid, seed, n, stride)
        b = digests(pid, seed, n, stride)
        if a != b:
            print(f"SELFTEST-FAIL {pid}: two in-process executions differ")
            bad += 1
        for hs, exact in (("0", True), ("12345", False)):
            env = dict(os.environ, PYTHONHASHSEED=hs)
            cp = subprocess.run(
                [sys.executable, os.path.abspath(__file__), str(n), "--child", pid, str(stride)],
                env=env, capture_output=True, text=True, timeout=600, cwd=VERIF,
            )
            if cp.returncode != 0:
                print(f"SELFTEST-FAIL {pid}: child failed: {cp.stderr[-800:]}")
                bad += 1
                continue
            c = [tuple(x) for x in json.loads(cp.stdout.strip().splitlines()[-1])]
            if exact and c != a:
                print(f"SELFTEST-FAIL {pid}: fresh interpreter digests differ")
                bad += 1
            if not exact and [x[2] for x in c] != [x[2] for x in a]:
                print(f"SELFTEST-FAIL {pid}: verdicts differ under PYTHONHASHSEED={hs}")
                bad += 1
        print(f"selftest {pid}: {len(a)} plans x 4 executions, digests {'agree' if not bad else 'DISAGREE'}")
        total_bad += bad
    return 1 if total_bad else 0


if __name__ == "__main__":
    sys.exit(main(sys.argv[1:]))
