"""ServiceModel for event notifications (C17, and the notification half of C08).

Who is subscribed is taken from what the SD layer tells the service (recorded
client_subscribed / client_unsubscribed calls on the instance); what the
service then sends is judged at the transport."""
from sim import refdec
from sim.core import RES
from .announce import _matching
from .timing import fire_limit, fire_start
from .session import OutgoingModel


def ep_addr(ep):
    _, ver, addr, l4, port = ep
    return (addr, port) if ver == 4 else (addr, port, 0, 0)


class NotifyOracle:
    def __init__(self, service_cfg, resolver, svc_addr, node="N"):
        self.node = node
        self.sc = service_cfg
        self.svc_addr = svc_addr
        self.Lmax = (resolver or [0, 0])[1]
        self.groups = {g["id"]: g for g in service_cfg.get("eventgroups", [])}
        self.ev_group = {}
        self.values = {}  # event -> [(t, bytes)]
        self.order = {}  # group -> [event ids in insertion order]
        for g in self.groups.values():
            self.order[g["id"]] = [int(e) for e in g.get("values", {})]
            for ev, hx in g.get("values", {}).items():
                self.ev_group[int(ev)] = g["id"]
                self.values[int(ev)] = [(0.0, bytes.fromhex(hx))]
        self.subs = {}  # (group, ep) -> list of [t_from, t_to] (one interval per accepted subscription naming it)
        self.live = {}  # (src, subkey) -> (group, ep)
        self.expect = []  # dict(kind, dst, events, lo, hi, required)
        self.dgrams = []  # dict(T, dst, events, group)
        self.session = OutgoingModel()
        self.violations = []
        self.probes = {}
        self.states = set()
        self.nmsg = 0

    def probe(self, name, n=1):
        self.probes[name] = self.probes.get(name, 0) + n

    def viol(self, rule, msg, ctx):
        self.violations.append((rule, {"msg": msg, "context": ctx}))

    # subscription state -------------------------------------------------
    def subscribed_in(self, g, ep, a, b):
        """'throughout' / 'sometime' / 'never' during [a, b]"""
        st = "never"
        for t0, t1 in self.subs.get((g, ep), ()):
            # changes in the very instant of the trigger / of the transmission may go either way
            if t0 < a - RES and t1 > b + RES:
                return "throughout"
            if t0 <= b + RES and t1 >= a - RES:
                st = "sometime"
        return st

    def eps_of(self, g):
        return {ep for (gg, ep) in self.subs if gg == g}

    def has_clients(self, g, T):
        return any(t0 <= T + RES and t1 > T for (gg, ep), ivs in self.subs.items() if gg == g for t0, t1 in ivs)

    def on_cb(self, T, kind, sk, src):
        g = sk[3]
        eps = sk[5]
        if kind == "rejected":
            self.probe("refused")
            if len(eps) == 1 and g in self.groups:
                self.viol("REFUSE", f"subscription {sk[:5]} with exactly one endpoint was refused", "refused-valid")
            return
        if kind == "subscribed":
            if len(eps) != 1:
                self.viol("REFUSE", f"subscription {sk[:5]} naming {len(eps)} endpoints was accepted", "accepted-invalid")
                return
            if g not in self.groups:
                self.viol("REFUSE", f"subscription for unknown eventgroup {g} was accepted", "unknown-eventgroup")
                return
            ep = eps[0]
            if any(t1 == float("inf") for t0, t1 in self.subs.get((g, ep), ())):
                self.probe("second_subscription_for_one_endpoint")
            self.subs.setdefault((g, ep), []).append([T, float("inf")])
            self.live[(src, sk)] = (g, ep)
            self.expect.append(dict(kind="initial", dst=ep_addr(ep), events=list(self.order[g]), lo=T, hi=self.late(T), required=True, group=g))
            return
        # unsubscribed
        ge = self.live.pop((src, sk), None)
        if ge is not None:
            for iv in self.subs.get(ge, ()):
                if iv[1] == float("inf"):
                    iv[1] = T
                    break

    def on_op(self, T, label):
        _, opidx, f, a = label[:4]
        if f in ("set_value", "rebind_values"):
            g, ev, hx = a
            if ev not in self.values:
                self.values[ev] = []
                self.ev_group[ev] = g
                self.order[g].append(ev)
            self.values[ev].append((T, bytes.fromhex(hx)))
        elif f == "notify_once":
            g, evs = a
            evs = list(evs)
            if not self.has_clients(g, T):
                self.probe("notify_once_without_clients")
                return
            if not evs:
                return
            self.rounds_pending.append((T, g, evs))

    def _close_rounds(self):
        for T, g, evs in self.rounds_pending:
            for ep in self.eps_of(g):
                st = self.subscribed_in(g, ep, T, self.late(T))
                if st == "never":
                    continue
                self.expect.append(dict(kind="explicit", dst=ep_addr(ep), events=evs, lo=T, hi=self.late(T), required=st == "throughout", group=g))
        self.rounds_pending = []

    def late(self, T):
        """latest transmission instant of a round triggered at T (resolver latency, busy loop)"""
        return fire_limit(self.busy, T + self.Lmax)

    def early(self, T):
        """earliest trigger instant of something transmitted at T"""
        return fire_start(self.busy, T) - self.Lmax

    def value_ok(self, ev, payload, T):
        hist = self.values.get(ev, [])
        # the value the event has when the datagram is built and sent (one synchronous step): the values it had in the
        # instant of the transmission (an update in that very instant - or inside a busy period that ends there - may
        # fall on either side), not a value read earlier, before the address lookup
        lo = fire_start(self.busy, T) - RES
        ok = []
        for i, (t, v) in enumerate(hist):
            t_end = hist[i + 1][0] if i + 1 < len(hist) else float("inf")
            if t <= T + RES and t_end >= lo:
                ok.append(v)
        return payload in ok

    def on_tx(self, T, src, dst, data):
        if src != self.svc_addr:
            return
        msgs, err = refdec.split_datagram(data)
        notes = [m for m in msgs if m.mtype == 2 and m.method & 0x8000]
        if not notes:
            return
        evs = []
        for m in notes:
            self.nmsg += 1
            # the event is identified by its method id 0x8000 | event id (an event id may have bit 15 set already)
            ev = next((e for e in self.ev_group if (0x8000 | e) == m.method), m.method & 0x7FFF)
            evs.append(ev)
            flag, sid = self.session.expect(dst)
            if m.session != sid:
                n = self.session.count[dst]
                self.viol("SESSION-PER-DEST", f"notification #{n} to {dst} carries session id {m.session:#x}, expected {sid:#x}", "at-wrap" if n >= 0xFFFF else "sequence")
                if m.session:
                    self.session.count[dst] = (m.session - 1) % 0xFFFF + 1 + (0xFFFF if n > 0xFFFF else 0)
            if m.service != self.sc["svc"] or m.iface != self.sc["major"] or m.rc != 0 or m.client != 0 and False:
                self.viol("CONTENT", f"notification header service={m.service:#x} iface={m.iface} rc={m.rc}", "header")
            if ev not in self.ev_group:
                self.viol("CONTENT", f"notification for unknown event {ev:#x}", "unknown-event")
            elif not self.value_ok(ev, m.payload, T):
                self.viol("CONTENT", f"notification for event {ev:#x} at {T:.6f} carries {m.payload.hex()}, not a value the event had when it was sent", "payload")
        if len(notes) != len(msgs):
            self.viol("CONTENT", "notifications mixed with other messages in one datagram", "mixed")
        groups = {self.ev_group.get(e) for e in evs}
        self.dgrams.append(dict(T=T, dst=dst, events=evs, group=groups.pop() if len(groups) == 1 else None))

    def finish(self):
        self._close_rounds()
        by = {}
        for d in self.dgrams:
            by.setdefault(d["dst"], ([], []))[0].append(d)
        for x in self.expect:
            by.setdefault(x["dst"], ([], []))[1].append(x)
        def cyclic_like(d):
            # a cyclic round carries the events the group had when the round was triggered or when it was sent (a
            # values dict replaced while the address lookup is under way shows up in the next round)
            g = d["group"]
            if g is None or not self.groups[g].get("interval"):
                return False
            instants = [self.early(d["T"]) - RES, d["T"] + RES] + [self.values[e][0][0] + RES for e in self.order[g] if self.early(d["T"]) - RES <= self.values[e][0][0] <= d["T"] + RES]
            return any(d["events"] == [e for e in self.order[g] if self.values[e][0][0] <= x] for x in instants)

        for dst, (dg, ex) in by.items():
            # datagrams that cannot be a cyclic round claim their initial / explicit round first (the matching keeps
            # what it matched): a datagram that may be either is left for the cyclic rounds if need be
            dg.sort(key=lambda d: (cyclic_like(d), d["T"]))
            adj = [[j for j, x in enumerate(ex) if x["lo"] - RES <= d["T"] <= x["hi"] + RES and x["events"] == d["events"]] for d in dg]
            m = _matching(adj, len(ex))
            for i, d in enumerate(dg):
                if m[i] is not None:
                    self.probe("matched_" + ex[m[i]]["kind"])
                    continue
                g = d["group"]
                cyc = cyclic_like(d)
                if cyc:
                    eps = [ep for ep in self.eps_of(g) if ep_addr(ep) == dst]
                    if any(self.subscribed_in(g, ep, self.early(d["T"]), d["T"]) != "never" for ep in eps):
                        self.probe("cyclic_datagrams")
                        continue
                    self.viol("ROUND-SET", f"cyclic notification to {dst} at {d['T']:.6f} although that endpoint is not subscribed", "stale-endpoint")
                    continue
                why = "not-subscribed" if not any(ep_addr(ep) == dst for gg, ep in self.subs) else "no-round"
                self.viol("ROUND-SET", f"notification datagram {d['events']} to {dst} at {d['T']:.6f} belongs to no initial, explicit or cyclic round", why)
            req = [j for j, x in enumerate(ex) if x["required"]]
            radj = [[i for i, d in enumerate(dg) if j in adj[i]] for j in req]
            mr = _matching(radj, len(dg))
            for n, j in enumerate(req):
                if mr[n] is None:
                    x = ex[j]
                    rule = "INITIAL" if x["kind"] == "initial" else "ROUND-SET"
                    self.viol(rule, f"{x['kind']} notification {x['events']} to {dst} due in [{x['lo']:.6f}, {x['hi']:.6f}] was not sent", "missing-" + x["kind"])
        self._cyclic_liveness()
        return self

    def _cyclic_liveness(self):
        """a group with an interval keeps its rounds going: an endpoint subscribed throughout a span longer than two
        intervals (plus resolver latency and injected busy time) receives a datagram with the group's events in it"""
        busy_total = sum(b - a for a, b in self.busy)
        for (g, ep), ivs in self.subs.items():
            I = self.groups[g].get("interval")
            if not I or not self.order.get(g):
                continue
            G = 2 * I + 2 * self.Lmax + busy_total + 4 * RES
            dst = ep_addr(ep)
            times = sorted(d["T"] for d in self.dgrams if d["dst"] == dst and d["group"] == g)
            for t0, t1 in ivs:
                b = min(t1, self.t_end)
                pts = [t0] + [t for t in times if t0 <= t <= b] + [b]
                for x, y in zip(pts, pts[1:]):
                    if y - x > G:
                        self.viol("ROUND-SET", f"no cyclic notification of eventgroup {g} to {dst} between {x:.6f} and {y:.6f} (interval {I}) although it was subscribed from {t0:.6f} to {t1:.6f}", "cyclic-missing")
                        break
                else:
                    if b - t0 > G:
                        self.probe("cyclic_liveness_judged")

    def walk(self, log):
        self.t_end = log[-1][2] if log else 0.0
        self.busy = [(e[2] - e[5], e[2]) for e in log if e[4] == "busy"]
        self.rounds_pending = []
        for idx, (seq, it, T, actor, kind, data) in enumerate(log):
            if actor != self.node:
                continue
            if kind == "cb" and data[1] == "SVC":
                self.on_cb(T, data[0], data[2], data[3])
            elif kind == "op":
                if idx + 1 < len(log) and log[idx + 1][4] == "op-skip":
                    continue
                self.on_op(T, data)
            elif kind == "tx":
                self.on_tx(T, data[0], data[1], data[2])
        return self.finish()
