"""Reference model + oracle for the announcer side: offer timeline (C10),
FindService answers (C12) and queue -> transmission accounting (C15).

Observes only: executed API calls, delivered datagrams, decoded entries leaving
the transport, and (C15) the recorded queue_send calls.
"""
from sim import refdec
from sim.core import RES
from .timing import fire_limit, fire_start

GROUP = ("224.224.224.245", 30490)
DEF = dict(
    INITIAL_DELAY_MIN=0.0,
    INITIAL_DELAY_MAX=3,
    REQUEST_RESPONSE_DELAY_MIN=0.01,
    REQUEST_RESPONSE_DELAY_MAX=0.05,
    REPETITIONS_MAX=3,
    REPETITIONS_BASE_DELAY=0.01,
    CYCLIC_OFFER_DELAY=1,
    ANNOUNCE_TTL=3,
    SEND_COLLECTION_TIMEOUT=0.005,
)


class Inst:
    def __init__(self, idx, cfg, timings):
        self.idx = idx
        self.key = (cfg["svc"], cfg["inst"], cfg["major"], cfg["minor"])
        self.opts = tuple(tuple(o) for o in cfg.get("opts", []))
        t = dict(DEF)
        t.update(timings)
        t.update(cfg.get("timings", {}))
        self.t = t
        self.announced = False
        self.running = False
        self.broken = False  # a stop call raised: nothing more is judged for this instance
        self.stops = []  # records of stops: dict(t, expect, seen, tx), oldest first
        self.reset()

    def reset(self):
        """a new incarnation of the offer task (the stop record of the previous one stays)"""
        self.k = 0  # index of the next expected multicast offer
        self.Q = None  # (lo, hi) queue-time window of the next expected multicast offer
        self.t_start = None
        self.first_tx = None  # time the first offer left the transport
        self.ever_offered = False

    @property
    def stop(self):
        return self.stops[-1] if self.stops else None

    @property
    def t_stop(self):
        return self.stops[-1]["t"] if self.stops else None

    def delay(self, k):
        """delay between offer k and offer k+1 (None: no further offer)"""
        n = self.t["REPETITIONS_MAX"]
        if k < n:
            return (2**k) * self.t["REPETITIONS_BASE_DELAY"]
        c = self.t["CYCLIC_OFFER_DELAY"]
        return c if c else None


def find_matches(e, key):
    if e.service != key[0]:
        return False
    if e.instance != 0xFFFF and e.instance != key[1]:
        return False
    if e.major != 0xFF and e.major != key[2]:
        return False
    if e.value != 0xFFFFFFFF and e.value != key[3]:
        return False
    return True


class AnnounceOracle:
    def __init__(self, instances, timings, node="N", helper=None):
        self.node = node
        self.timings = dict(DEF)
        self.timings.update(timings)
        self.tau = self.timings["SEND_COLLECTION_TIMEOUT"]
        self.insts = [Inst(i, c, timings) for i, c in enumerate(instances)]
        self.helper = None
        self.helper_cfg = helper
        if helper:
            self.helper = Inst("H", helper, timings)
            self.insts.append(self.helper)
        self.started = False
        self.conn_lost = False
        self.busy = []
        self.violations = []
        self.probes = {}
        self.states = set()
        self.answers = []
        self.await_draw = []
        self.order = []  # instances in the order they were registered with the announcer
        self.expect = []  # find answers: dict(p, inst, lo, hi, required, allowed, tf, mc, done)
        self.noffers = 0
        self.nanswers = 0
        self.epoch_kinds = set()
        # C15
        self.queued = {}  # dest -> list of [entry_key, T, sent]
        self.q_viol = []
        self.nqueued = 0

    def probe(self, name, n=1):
        self.probes[name] = self.probes.get(name, 0) + n

    def viol(self, rule, msg, ctx):
        self.violations.append((rule, {"msg": msg, "context": ctx}))

    def FL(self, t):
        return fire_limit(self.busy, t)

    def sent_by(self, t_queue_latest):
        """latest transmission instant of an entry queued no later than t_queue_latest"""
        return fire_limit(self.busy, fire_limit(self.busy, t_queue_latest) + self.tau)

    # ------------------------------------------------------------ lifecycle
    def _start(self, ins, T):
        if ins.broken:
            self.await_draw.append(ins)  # still registered with the announcer: its task still draws its delay
            return
        if ins.running:
            return
        ins.reset()
        ins.running = True
        ins.t_start = T
        ins.Q = (T + ins.t["INITIAL_DELAY_MIN"], T + ins.t["INITIAL_DELAY_MAX"])
        self.await_draw.append(ins)

    def on_uniform(self, T, a, b, v):
        """the library asked the (simulated) random source for a delay: the offer task of a
        freshly started instance does so once, in start order, before anything else"""
        for n, ins in enumerate(self.await_draw):
            if (a, b) == (ins.t["INITIAL_DELAY_MIN"], ins.t["INITIAL_DELAY_MAX"]) and a <= v <= b:
                del self.await_draw[: n + 1]
                if not ins.broken and ins.running and ins.k == 0 and ins.t_start is not None and abs(T - ins.t_start) <= RES:
                    ins.Q = (T + v, T + v)
                return

    def _stop(self, ins, T):
        if ins.broken:
            if ins in self.await_draw:
                self.await_draw.remove(ins)  # its task was cancelled before it drew
            return
        if not ins.running:
            return
        ins.running = False
        never_ran = ins in self.await_draw
        if never_ran:
            self.await_draw.remove(ins)  # cancelled before its task ran its first step: it never draws
        cyclic = bool(ins.t["CYCLIC_OFFER_DELAY"])
        if never_ran:
            # the offer task did not even start: it offered nothing (a non-cyclic stop() announces the end regardless)
            expect = "none" if cyclic else "either"
            self.probe("stop_before_first_offer")
        elif ins.k >= 1 or ins.ever_offered:
            expect = "one"
        elif ins.Q is not None and T < ins.Q[0] - RES:
            expect = "none" if cyclic else "either"
            self.probe("stop_before_first_offer")
        elif ins.Q is not None and T > self.FL(ins.Q[1]) + RES:
            expect = "one"  # the first offer was queued (it may still sit in the collector)
            self.probe("stop_with_first_offer_in_collector")
        else:
            expect = "either"
        ins.stops.append(dict(t=T, expect=expect, seen=0, tx=None))
        del ins.stops[:-4]
        for x in self.expect:
            if x["inst"] is ins and not x["done"]:
                x["required"] = False
                if x["mc"] and x["hi"] > T:
                    self.probe("stop_with_delayed_find_answer_pending")

    def _stop_window(self, st):
        return self.sent_by(st["t"])

    def on_op(self, T, label, failed):
        _, opidx, f, a = label[:4]
        self.epoch_kinds.add(f)
        if failed:
            # the call raised: C10 STOP-NO-ERROR for the stop family
            if f in ("stop", "ann_stop", "conn_lost", "stop_announce", "helper_stop_announce"):
                self.viol("STOP-NO-ERROR", f"{f} raised {failed[0]} in {failed[1]}", f"{f}:{failed[0]}")
                victims = self.insts if f in ("stop", "ann_stop", "conn_lost") else [self.helper] if f == "helper_stop_announce" else [self.insts[a[0]]]
                for i in victims:
                    if i is not None:
                        i.broken = True
            return
        if f in ("start", "ann_start"):
            if not self.started and not self.conn_lost:
                self.started = True
                for i in self.order:
                    self._start(i, T)
        elif f in ("stop", "ann_stop", "conn_lost"):
            if f == "conn_lost":
                self.conn_lost = True
            if self.started:
                self.started = False
                for i in self.insts:
                    self._stop(i, T)
        elif f in ("announce", "helper_start_announce"):
            i = self.helper if f.startswith("helper") else self.insts[a[0]]
            if f.startswith("helper") and i.announced and i.broken:
                # SimpleService.start_announce() after a stop_announce() that raised (known finding): the library registers
                # a second ServiceInstance for the helper; nothing is judged for it, but its offer task draws its delay in turn
                ghost = Inst("H'", self.helper_cfg, self.timings)
                ghost.broken = True
                ghost.announced = True
                self.insts.append(ghost)
                self.order.append(ghost)
                if self.started:
                    self._start(ghost, T)
            elif not i.announced:
                i.announced = True
                self.order.append(i)
                if self.started:
                    self._start(i, T)
        elif f in ("stop_announce", "helper_stop_announce"):
            i = self.helper if f.startswith("helper") else self.insts[a[0]]
            if i.announced:
                i.announced = False
                self.order.remove(i)
                self._stop(i, T)


    # ------------------------------------------------------------ finds
    def on_rx(self, T, chan, src, data):
        msgs, err = refdec.split_datagram(data)
        for m in msgs:
            cls, sdm = refdec.classify(m)
            if cls != "sd" or not sdm.unicast:
                continue
            for e in sdm.entries:
                if e.type != refdec.FIND:
                    continue
                self.epoch_kinds.add("find-mc" if chan == "m" else "find-uc")
                for ins in self.insts:
                    if ins.broken or not find_matches(e, ins.key):
                        continue
                    if not (ins.announced and ins.running):
                        if ins.t_stop is not None and T - ins.t_stop < 0.2:
                            self.probe("find_just_after_stop")
                        continue
                    if ins.first_tx is not None:
                        ready = "yes"
                    elif ins.Q is not None and ins.k == 0 and T < ins.Q[0] - RES:
                        ready = "no"
                        self.probe("find_during_initial_wait")
                    else:
                        ready = "maybe"
                        self.probe("find_between_queue_and_transmission_of_first_offer")
                    if ready == "no":
                        continue
                    if chan == "m":
                        lo = T + ins.t["REQUEST_RESPONSE_DELAY_MIN"]
                        hi = self.sent_by(T + ins.t["REQUEST_RESPONSE_DELAY_MAX"])
                    else:
                        lo, hi = T, self.sent_by(T)
                    self.expect.append(
                        dict(p=src, inst=ins, lo=lo, hi=hi, required=ready == "yes", tf=T, mc=chan == "m", done=False)
                    )

    # ------------------------------------------------------------ transmissions
    def on_tx(self, T, src, dst, data):
        msgs, err = refdec.split_datagram(data)
        for m in msgs:
            cls, sdm = refdec.classify(m)
            if cls != "sd":
                if refdec.is_sd_header(m):
                    self.viol("OFFER-CONTENT", f"SD message sent to {dst[0]} at {T:.6f} is not decodable: {sdm}", "undecodable-sd-message")
                continue
            self._account(T, dst, sdm.entries)
            for pos, e in enumerate(sdm.entries):
                if e.type != refdec.OFFER:
                    continue
                key = (e.service, e.instance, e.major, e.value)
                ins = next((i for i in self.insts if i.key == key), None)
                if ins is None:
                    self.viol("OFFER-CONTENT", f"offer for unknown instance {key}", "unknown-instance")
                    continue
                if ins.broken:
                    continue
                self.noffers += 1
                if e.ttl == 0:
                    self._stopoffer(ins, T, dst)
                elif dst == GROUP:
                    follows = any(
                        x.type == refdec.OFFER and x.ttl == 0 and (x.service, x.instance, x.major, x.value) == key for x in sdm.entries[pos + 1 :]
                    )
                    self._mc_offer(ins, T, e, follows)
                else:
                    self._uc_offer(ins, T, dst, e)

    def _content(self, ins, e, what):
        if e.ttl != ins.t["ANNOUNCE_TTL"]:
            self.viol("OFFER-CONTENT", f"{what} for {ins.key} carries TTL {e.ttl}, configured {ins.t['ANNOUNCE_TTL']}", "ttl")
        if tuple(e.opts1) != ins.opts or e.opts2:
            self.viol("OFFER-CONTENT", f"{what} for {ins.key} carries options {e.opts1}+{e.opts2}, configured {ins.opts}", "options")

    def _after_stop(self, ins, T):
        """is an offer with TTL>0 at T forbidden because the instance is stopped?"""
        if ins.running:
            return False
        if not ins.stops:
            return True  # never started
        # allowed only while some stop's StopOffer is still due: what was queued before that stop leaves before it
        for st in ins.stops:
            if st["tx"] is None and st["expect"] != "none" and T <= self._stop_window(st) + RES:
                return False
        return True

    def _mc_offer(self, ins, T, e, stop_follows=False):
        self._content(ins, e, "multicast offer")
        for st in ins.stops:
            if st["tx"] is None and st["expect"] != "none" and T <= self._stop_window(st) + RES:
                # possibly queued before that stop: then it leaves before / together with the StopOffer (FIFO collector)
                fits_new = ins.running and ins.Q is not None and T >= ins.Q[0] - RES
                if st["expect"] == "either" and fits_new and not stop_follows:
                    continue
                if st["expect"] == "either":
                    st["expect"] = "one"
                self.probe("offer_queued_before_stop_leaves_after_it")
                return
        if not ins.running:
            self.viol("NO-OFFER-AFTER-STOP", f"multicast offer for {ins.key} at {T:.6f} although stopped at {ins.t_stop}", "multicast-offer")
            return
        if ins.Q is None:
            self.viol("CYCLIC-PERIOD", f"non-cyclic instance {ins.key} offered again at {T:.6f}", "noncyclic-extra")
            return
        lo, hi = ins.Q
        last = self.sent_by(hi)
        rule = "FIRST-IN-WINDOW" if ins.k == 0 else "REPETITION-DOUBLING" if ins.k <= ins.t["REPETITIONS_MAX"] else "CYCLIC-PERIOD"
        if T < lo - RES:
            self.viol(rule, f"offer #{ins.k} of {ins.key} at {T:.6f}, earliest allowed {lo:.6f}", "early")
        elif T > last + RES:
            self.viol(rule, f"offer #{ins.k} of {ins.key} at {T:.6f}, latest allowed {last:.6f}", "late")
        # the offer was queued at the (actual) wake-up q with q <= T and q + timeout >= (due time of the collector that fired at T)
        qlo, qhi = max(lo, fire_start(self.busy, T) - self.tau), min(self.FL(hi), T)
        if T < lo:
            # fired up to one clock resolution early (the loop ran timers due within the resolution): the
            # next delay counts from the actual wake-up
            qlo = qhi = T
        elif qlo > qhi:
            qlo = qhi = min(max(T - self.tau, lo), self.FL(hi))
        if ins.k == 0:
            ins.first_tx = T
            self.probe("first_offer_min_eq_max" if lo == hi else "first_offer_window")
        ins.ever_offered = True
        d = ins.delay(ins.k)
        ins.k += 1
        ins.Q = None if d is None else (qlo + d, qhi + d)

    def _stopoffer(self, ins, T, dst):
        if dst != GROUP:
            self.viol("ONE-STOPOFFER", f"StopOffer for {ins.key} sent to {dst} instead of the multicast group", "destination")
            return
        inwin = [st for st in ins.stops if st["t"] - RES <= T <= self._stop_window(st) + RES]
        st = next((x for x in inwin if x["seen"] == 0 and x["expect"] != "none"), None)
        if st is None:
            if inwin:
                st = inwin[-1]
                st["seen"] += 1
                if st["expect"] == "none":
                    self.viol("SILENT-STOP", f"StopOffer for {ins.key} although it was stopped before its first offer", "stop-before-first-offer")
                else:
                    self.viol("ONE-STOPOFFER", f"{st['seen']} StopOffers for one stop of {ins.key}", "duplicate")
            elif ins.stops and not ins.running and ins.stops[-1]["seen"] == 0:
                st = ins.stops[-1]
                st["seen"] += 1
                st["tx"] = T
                self.viol("ONE-STOPOFFER", f"StopOffer for {ins.key} at {T:.6f}, stop was at {st['t']:.6f}", "late")
            else:
                self.viol("ONE-STOPOFFER", f"StopOffer for {ins.key} at {T:.6f} while the instance is not being stopped", "unprovoked")
            return
        st["seen"] += 1
        st["tx"] = T

    def _uc_offer(self, ins, T, dst, e):
        self.nanswers += 1
        # C10 first: nothing after the StopOffer
        cands = [x for x in self.expect if x["inst"] is ins and x["p"] == dst and not x["done"]]
        fit = [x for x in cands if x["lo"] - RES <= T <= x["hi"] + RES]
        if self._after_stop(ins, T):
            x = fit[0] if fit else (cands[0] if cands else None)
            if x is None:
                cause = "no-find"
            elif ins.t_stop is not None and x["tf"] > ins.t_stop:
                cause = "find-after-stop"
            elif x["mc"]:
                cause = "delayed-answer-to-multicast-find"
            else:
                cause = "unicast-answer-queued-before-stop"
            if x is not None:
                x["done"] = x["consumed"] = True
            self.viol("NO-OFFER-AFTER-STOP", f"offer for {ins.key} to {dst[0]} at {T:.6f} after it was stopped at {ins.t_stop}", cause)
            self.viol("ANSWER", f"stopped instance {ins.key} answered a FindService of {dst[0]} at {T:.6f} (stopped at {ins.t_stop})", "from-stopped-instance:" + cause)
            return
        if (ins.running and ins.k == 0 and ins.first_tx is None and ins.Q is not None and T < ins.Q[0] - RES and not ins.broken
                and (ins.t_stop is None or T > self.FL(ins.t_stop) + RES)):
            # the instance was started (again) and is still in its initial wait: it is not ready, whatever was asked
            # of its previous incarnation (answers queued before a stop leave with the flush that precedes the StopOffer,
            # i.e. in the instant of the stop - possibly after a start in that same instant)
            self.viol("ANSWER", f"instance {ins.key} answered a FindService of {dst[0]} at {T:.6f} during its initial wait (first offer not before {ins.Q[0]:.6f})", "during-initial-wait")
            return
        self._content(ins, e, f"find answer to {dst[0]}")
        # which request it answers is decided at the end, by matching (see finish())
        self.answers.append(dict(T=T, inst=ins, p=dst))

    def finish(self):
        """every unicast offer must answer a distinct pending FindService inside its window, and
        every FindService that had to be answered must have got one: two bipartite matchings
        (Mendelsohn-Dulmage: if both exist, one matching does both)"""
        groups = {}
        for a in self.answers:
            groups.setdefault((a["p"], a["inst"].idx), ([], []))[0].append(a)
        for x in self.expect:
            if not x["inst"].broken:
                groups.setdefault((x["p"], x["inst"].idx), ([], []))[1].append(x)
        for (p, _), (ans, exps) in groups.items():
            adj = [[j for j, x in enumerate(exps) if x["lo"] - RES <= a["T"] <= x["hi"] + RES and not x.get("consumed")] for a in ans]
            m_ans = _matching(adj, len(exps))
            for i, a in enumerate(ans):
                if m_ans[i] is None:
                    why = "timing" if exps else "unsolicited"
                    self.viol("ANSWER", f"unicast offer for {a['inst'].key} to {p[0]} at {a['T']:.6f} answers no pending FindService ({why})", why)
                else:
                    self.probe("find_answered_multicast" if exps[m_ans[i]]["mc"] else "find_answered_unicast")
            req = [j for j, x in enumerate(exps) if x["required"] and not x.get("consumed")]
            radj = [[i for i, a in enumerate(ans) if j in adj[i]] for j in req]
            m_req = _matching(radj, len(ans))
            for n, j in enumerate(req):
                if m_req[n] is None:
                    x = exps[j]
                    self.viol("ANSWER", f"FindService from {p[0]} at {x['tf']:.6f} matching ready instance {x['inst'].key} was not answered by {x['hi']:.6f}", "missing")
        return self

    # ------------------------------------------------------------ C15 accounting
    def on_queue(self, T, remote, ekey):
        self.nqueued += 1
        self.queued.setdefault(remote or GROUP, []).append([ekey, T, False])

    def _account(self, T, dst, entries):
        if not self.queued and not self.nqueued:
            return
        ents = [tuple(e) for e in entries if e.type in (refdec.OFFER, refdec.SUBACK)]
        if not ents:
            return
        if len(ents) != len(entries):
            self.q_viol.append(("DEST", f"queued entries combined with other entries in one message to {dst}", "mixed"))
        q = self.queued.setdefault(dst, [])
        pending = [x for x in q if not x[2]]
        if self.tau == 0 and len(ents) != 1:
            self.q_viol.append(("ZERO-IMMEDIATE", f"{len(ents)} entries in one message with collection timeout 0", "batched"))
        for n, e in enumerate(ents):
            if n >= len(pending):
                self.q_viol.append(("EXACTLY-ONCE", f"entry {e[:6]} sent to {dst[0]} but nothing is queued for it (duplicate or misrouted)", "extra"))
                continue
            x = pending[n]
            if x[0] != e:
                # is it queued elsewhere / later?
                later = any(y[0] == e for y in pending[n + 1 :])
                other = any(y[0] == e and not y[2] for d2, lst in self.queued.items() if d2 != dst for y in lst)
                kind = "ORDER" if later else "DEST" if other else "EXACTLY-ONCE"
                self.q_viol.append((kind, f"to {dst[0]}: sent {e[:6]}, next queued is {x[0][:6]}", "reordered" if later else "misrouted" if other else "unknown-entry"))
                # resynchronise on the first equal pending entry
                for y in pending[n:]:
                    if y[0] == e:
                        y[2] = True
                        break
                continue
            x[2] = True
            limit = self.sent_by(x[1])
            if T > limit + RES:
                self.q_viol.append(("DEADLINE", f"entry {e[:6]} queued at {x[1]:.6f} left at {T:.6f}, limit {limit:.6f}", "late"))
            if self.tau == 0 and T != x[1]:
                self.q_viol.append(("ZERO-IMMEDIATE", f"entry queued at {x[1]:.6f} left at {T:.6f} with collection timeout 0", "delayed"))
            if abs(T - (x[1] + self.tau)) <= RES and self.tau:
                self.probe("sent_exactly_at_window_close")

    # ------------------------------------------------------------ idle
    def on_idle(self, T):
        for ins in self.insts:
            if ins.broken:
                continue
            if ins.running and ins.Q is not None:
                lo, hi = ins.Q
                lim = self.sent_by(hi)
                if T > lim + RES:
                    rule = "FIRST-IN-WINDOW" if ins.k == 0 else "REPETITION-DOUBLING" if ins.k <= ins.t["REPETITIONS_MAX"] else "CYCLIC-PERIOD"
                    self.viol(rule, f"offer #{ins.k} of {ins.key} not sent by {lim:.6f} (idle at {T:.6f})", "missing")
                    d = ins.delay(ins.k)
                    ins.k += 1
                    ins.Q = None if d is None else (lo + d, hi + d)
            for st in ins.stops:
                if st["expect"] == "one" and st["seen"] == 0:
                    lim = self._stop_window(st)
                    if T > lim + RES:
                        self.viol("ONE-STOPOFFER", f"no StopOffer for {ins.key} by {lim:.6f} after the stop at {st['t']:.6f}", "missing")
                        st["expect"] = "reported"
        for dst, lst in self.queued.items():
            for x in lst:
                if not x[2] and T > self.sent_by(x[1]) + RES:
                    x[2] = True
                    self.q_viol.append(("EXACTLY-ONCE", f"entry {x[0][:6]} queued for {dst[0]} at {x[1]:.6f} was never sent", "lost"))
        self.states.add(
            hash(tuple((i.idx, i.announced, i.running, min(i.k, 6), i.stop and (i.stop["expect"], i.stop["seen"])) for i in self.insts)) & 0xFFFFFFFFFFFF
        )
        self.epoch_kinds = set()

    def walk(self, log):
        # injected busy periods are part of the plan: known up front
        self.busy = [(e[2] - e[5], e[2]) for e in log if e[4] == "busy"]
        self.deferred_stop = None
        for idx, (seq, it, T, actor, kind, data) in enumerate(log):
            self.cur_it = it
            if kind == "idle":
                self.on_idle(T)
            elif kind == "busy":
                self.epoch_kinds.add("busy")
            elif actor != self.node:
                continue
            elif kind == "uniform":
                self.on_uniform(T, data[0], data[1], data[2])
            elif kind == "op":
                nxt = log[idx + 1] if idx + 1 < len(log) else None
                if nxt is not None and nxt[4] == "op-skip":
                    continue
                failed = None
                # an exception record of this very call follows the records the call itself produced
                for j in range(idx + 1, min(idx + 400, len(log))):
                    if log[j][4] == "op-exception" and log[j][5][0] == data[1]:
                        failed = (log[j][5][2], log[j][5][3])
                        break
                    if log[j][4] in ("op", "idle", "rx"):
                        break
                self.on_op(T, data, failed)
            elif kind == "rx":
                self.on_rx(T, data[0], data[1], data[2])
            elif kind == "tx":
                self.on_tx(T, data[0], data[1], data[2])
            elif kind == "queue":
                self.on_queue(T, data[0], data[1])
        return self.finish()


def _matching(adj, nright):
    """maximum bipartite matching; adj[i] = right vertices of left vertex i; -> match of each left vertex or None"""
    right = [None] * nright
    left = [None] * len(adj)

    def augment(i, seen):
        for j in adj[i]:
            if j in seen:
                continue
            seen.add(j)
            if right[j] is None or augment(right[j], seen):
                right[j] = i
                left[i] = j
                return True
        return False

    for i in range(len(adj)):
        augment(i, set())
    return left
