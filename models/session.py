"""SessionModel: reboot detection exactly as C07 states it, and outgoing
session id sequences as C08 states them."""


class SessionModel:
    def __init__(self):
        self.last = {}  # (sender, channel) -> (flag, sid)

    def rx(self, sender, channel, flag, sid):
        """-> True iff this message reveals a reboot of `sender`"""
        k = (sender, channel)
        prev = self.last.get(k)
        self.last[k] = (flag, sid)
        if prev is None:
            return False
        pflag, psid = prev
        if flag and not pflag:
            return True
        if flag and pflag and sid <= psid and psid > 0:
            # (a predecessor with session id 0 - "session handling not active", never sent by an SD stack - is no evidence)
            return True
        return False


class OutgoingModel:
    """per destination: ids 1..0xFFFF,1..; flag set until the first wrap"""

    def __init__(self):
        self.count = {}

    def expect(self, dest):
        n = self.count.get(dest, 0)
        self.count[dest] = n + 1
        return (n < 0xFFFF, n % 0xFFFF + 1)
