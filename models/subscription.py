"""Reference model + oracle for the server side (eventgroup subscriptions):
C06 rules ALT / TRUTH / NO-REJECTED / ACK-HELD / REBOOT-ORDER, the
subscription half of C09 (EXPIRY-TIME, SPURIOUS-STOP) and the expected
Ack/Nack sequence of C11.

Driven by the event log only (delivered datagrams decoded by the reference
decoder, executed API calls, listener callbacks, transmitted datagrams).
"""
from sim import refdec
from sim.core import RES
from .timing import fire_limit
from .session import SessionModel

INF = float("inf")


class Inst:
    def __init__(self, idx, cfg):
        self.idx = idx
        self.svc, self.inst, self.major = cfg["svc"], cfg["inst"], cfg["major"]
        self.egs = set(cfg.get("egs", []))
        self.announced = False
        self.running = False
        self.name = f"S{idx}"
        self.reject_all = False
        self.reject_keys = set(map(tuple, cfg.get("reject_keys", ())))

    def rejects(self, e):
        return self.reject_all or (refdec.entry_eventgroup(e), refdec.entry_counter(e)) in self.reject_keys

    def matches(self, e):
        if e.service != self.svc:
            return False
        if self.inst != 0xFFFF and self.inst != e.instance:
            return False
        if self.major != 0xFF and self.major != e.major:
            return False
        return refdec.entry_eventgroup(e) in self.egs


def subkey_of(e):
    eps = tuple(sorted(set(o for o in (e.opts1 + e.opts2) if o[0] == "ep")))
    return (e.service, e.instance, e.major, refdec.entry_eventgroup(e), refdec.entry_counter(e), eps)


class SubscriptionOracle:
    def __init__(self, instances, node="N", node_addr=None, rate=1.0):
        self.node = node
        self.rate = rate  # clock rate of the node (drift fault): its TTL timers run in its own clock
        self.insts = [Inst(i, c) for i, c in enumerate(instances)]
        self.sess = SessionModel()
        self.started = False
        self.live = {}  # (iname, src, subkey) -> deadline
        self.pending = []  # asks the model expects: (iname, src, subkey, expected kind)
        self.latest = {}  # (iname, src, subkey) -> (kind, idx)
        self.explain = {}
        self.replaced = {}
        self.busy = []
        self.epoch = 0
        self.epoch_kinds = set()
        self.reboots = []
        self.violations = []
        self.probes = {}
        self.states = set()
        self.ncb = 0
        self.ntruth = 0
        self.acked = []  # (dst, ids, epoch, idx)
        self.expected_acks = {}  # src -> list of expected (svc,inst,major,eg,counter,ttl|'?')
        self.seen_acks = {}  # src -> list of observed
        self.ack_violations = []
        self.conn_lost = False
        self.mcast_subs = 0

    def probe(self, name, n=1):
        self.probes[name] = self.probes.get(name, 0) + n

    def viol(self, rule, msg):
        site = "+".join(sorted(self.epoch_kinds)) or "quiet"
        self.violations.append((rule, {"msg": msg, "context": site}))

    # ------------------------------------------------------------------
    def _kill(self, k3, cause):
        if k3 not in self.live:
            return
        del self.live[k3]
        self.explain.setdefault(k3, []).append((cause, self.epoch))

    def _stop_instance(self, ins, cause):
        for k3 in [k for k in self.live if k[0] == ins.name]:
            self._kill(k3, cause)
        self.pending = [p for p in self.pending if p[0] != ins.name]

    def on_rx(self, idx, T, chan, src, data):
        msgs, err = refdec.split_datagram(data)
        for m in msgs:
            cls, sdm = refdec.classify(m)
            if cls != "sd":
                continue
            if self.sess.rx(src, chan == "m", sdm.reboot, m.session):
                self.epoch_kinds.add("reboot")
                self.reboots.append((src, idx, self.epoch))
                had = [k for k in self.live if k[1] == src]
                if had and sdm.unicast and chan == "u" and any(e.type == refdec.SUBSCRIBE and e.ttl for e in sdm.entries):
                    self.probe("reboot_evidence_with_subscribe_in_one_message")
                for k3 in had:
                    self._kill(k3, "reboot")
            if not sdm.unicast:
                continue
            for e in sdm.entries:
                if e.type != refdec.SUBSCRIBE:
                    continue
                if chan == "m":
                    self.mcast_subs += 1
                    self.probe("multicast_subscribe")
                    continue
                sk = subkey_of(e)
                ids = (e.service, e.instance, e.major, refdec.entry_eventgroup(e), refdec.entry_counter(e))
                match = [i for i in self.insts if i.announced and i.running and i.matches(e)]
                if not match:
                    if e.ttl:
                        self.epoch_kinds.add("subscribe-nomatch")
                        self.expected_acks.setdefault(src, []).append(ids + (0,))
                    else:
                        # StopSubscribe for something unknown: the property fixes nothing
                        self.expected_acks.setdefault(src, []).append(ids + ("optional-nack",))
                    continue
                ins = match[0]
                k3 = (ins.name, src, sk)
                if e.ttl == 0:
                    self.epoch_kinds.add("stopsubscribe")
                    self._kill(k3, "stopsubscribe")
                    continue
                self.epoch_kinds.add("subscribe")
                d = INF if e.ttl == refdec.TTL_FOREVER else T + e.ttl * self.rate
                if k3 in self.live:
                    old = self.live[k3]
                    if old != INF and old <= T + RES:
                        self.probe("subscribe_and_deadline_in_one_epoch")
                        self.epoch_kinds.add("deadline")
                        self.replaced.setdefault(k3, []).append((old, self.epoch))
                    self.live[k3] = d
                    self.expected_acks.setdefault(src, []).append(ids + (e.ttl,))
                elif ins.rejects(e):
                    self.pending.append(k3 + ("rejected",))
                    self.expected_acks.setdefault(src, []).append(ids + (0,))
                else:
                    self.pending.append(k3 + ("subscribed",))
                    self.live[k3] = d
                    self.expected_acks.setdefault(src, []).append(ids + (e.ttl,))

    def on_op(self, idx, T, label):
        _, opidx, f, a = label[:4]
        self.epoch_kinds.add(f)
        if f in ("start", "ann_start", "restart"):
            if not self.started:
                self.started = True
                for i in self.insts:
                    if i.announced:
                        i.running = True
        elif f in ("stop", "ann_stop"):
            if self.started:
                self.started = False
                for i in self.insts:
                    if i.running:
                        i.running = False
                        self._stop_instance(i, f)
        elif f == "conn_lost":
            self.conn_lost = True
            if self.started:
                self.started = False
                for i in self.insts:
                    if i.running:
                        i.running = False
                        self._stop_instance(i, f)
        elif f == "reject":
            self.insts[a[0]].reject_all = bool(a[1])
        elif f == "announce":
            i = self.insts[a[0]]
            if not i.announced:
                i.announced = True
                i.running = self.started
        elif f == "stop_announce":
            i = self.insts[a[0]]
            if i.announced:
                i.announced = False
                if i.running:
                    i.running = False
                    self._stop_instance(i, f)

    def on_busy(self, T, d):
        pass
        self.epoch_kinds.add("busy")

    def expected_fire(self, d):
        return fire_limit(self.busy, d)

    def on_cb(self, idx, T, kind, iname, sk, src, ttl):
        self.ncb += 1
        k3 = (iname, src, sk)
        prev = self.latest.get(k3)
        if kind in ("subscribed", "rejected"):
            hit = None
            for j, p in enumerate(self.pending):
                if p[:3] == k3:
                    hit = j
                    break
            if hit is None:
                self.viol("TRUTH", f"listener {iname} asked about {sk[:5]} from {src[0]} although no Subscribe needed a decision")
            else:
                p = self.pending.pop(hit)
                if p[3] != kind:
                    raise AssertionError(f"listener double answered {kind}, model expected {p[3]}")
            if kind == "subscribed" and prev is not None and prev[0] == "subscribed":
                self.viol("ALT", f"'subscribed' after 'subscribed' for {iname} {sk[:5]} from {src[0]}")
            if kind == "subscribed":
                for rsrc, ridx, repoch in self.reboots:
                    if rsrc == src and repoch == self.epoch:
                        for (i2, s2, k2), (pk, pidx) in self.latest.items():
                            if s2 == src and pk == "subscribed" and pidx < ridx:
                                self.viol("REBOOT-ORDER", f"Subscribe {sk[:5]} accepted while pre-reboot {k2[:5]} from {src[0]} not yet unsubscribed")
                                break
                self.latest[k3] = (kind, idx)
            else:
                self.probe("listener_rejected")
                self.latest[k3] = ("rejected", idx) if prev is None or prev[0] != "subscribed" else prev
            return
        # unsubscribed
        if prev is None:
            self.viol("ALT", f"'unsubscribed' before any 'subscribed' for {iname} {sk[:5]} from {src[0]}")
        elif prev[0] == "rejected":
            self.viol("NO-REJECTED", f"rejected subscription {sk[:5]} from {src[0]} later reported unsubscribed")
        elif prev[0] == "unsubscribed":
            self.viol("ALT", f"'unsubscribed' after 'unsubscribed' for {iname} {sk[:5]} from {src[0]}")
        self._explain_stop(k3, T)
        self.latest[k3] = ("unsubscribed", idx)

    def _explain_stop(self, k3, T):
        ex = self.explain.get(k3)
        if ex:
            cause, ep = ex.pop(0)
            if ep != self.epoch:
                self.viol("EXPIRY-TIME", f"'unsubscribed' for {k3[2][:5]} ({cause}) delivered after the loop went idle")
            return
        cands = []
        if k3 in self.live and self.live[k3] != INF:
            cands.append(self.live[k3])
        cands += [d for d, ep in self.replaced.get(k3, ()) if ep == self.epoch]
        for d in cands:
            if d - RES <= T <= self.expected_fire(d) + RES:
                self.probe("expiry_on_time")
                if k3 in self.live and self.live[k3] == d:
                    del self.live[k3]
                return
        if cands:
            d = min(cands, key=lambda x: abs(x - T))
            self.viol("EXPIRY-TIME", f"'unsubscribed' for {k3[2][:5]} at {T:.6f} but deadline is {d:.6f} ({'early' if T < d else 'late'})")
        else:
            self.viol("SPURIOUS-STOP", f"'unsubscribed' for {k3[2][:5]} at {T:.6f} with nothing to explain it")

    def on_tx(self, idx, T, src, dst, data):
        msgs, err = refdec.split_datagram(data)
        for m in msgs:
            cls, sdm = refdec.classify(m)
            if cls != "sd":
                continue
            for e in sdm.entries:
                if e.type != refdec.SUBACK:
                    continue
                ids = (e.service, e.instance, e.major, refdec.entry_eventgroup(e), refdec.entry_counter(e))
                self.seen_acks.setdefault(dst, []).append(ids + (e.ttl,))
                if e.ttl:
                    self.acked.append((dst, ids, self.epoch, idx))
                    for rsrc, ridx, repoch in self.reboots:
                        if rsrc == dst and repoch == self.epoch:
                            for (i2, s2, k2), (pk, pidx) in self.latest.items():
                                if s2 == dst and pk == "subscribed" and pidx < ridx:
                                    self.viol("REBOOT-ORDER", f"Subscribe {ids} acknowledged while pre-reboot {k2[:5]} from {dst[0]} not yet unsubscribed")
                                    break

    def on_idle(self, T):
        for k3 in list(self.live):
            d = self.live[k3]
            if d != INF and d <= T + RES:
                del self.live[k3]
        for k3, (kind, _) in self.latest.items():
            self.ntruth += 1
            if kind == "subscribed" and k3 not in self.live:
                self.viol("TRUTH", f"idle at {T:.6f}: {k3[0]} believes {k3[2][:5]} from {k3[1][0]} subscribed, but TTL ran out / it was stopped / peer rebooted / service stopped")
            if kind != "subscribed" and k3 in self.live:
                self.viol("TRUTH", f"idle at {T:.6f}: accepted subscription {k3[2][:5]} from {k3[1][0]} should be held, latest notification is {kind}")
        for k3 in self.live:
            if k3 not in self.latest:
                self.viol("TRUTH", f"idle at {T:.6f}: subscription {k3[2][:5]} should be held but the listener never saw it")
        for k3, ex in self.explain.items():
            if ex:
                if self.latest.get(k3, ("", 0))[0] == "subscribed":
                    self.viol("TRUTH", f"idle at {T:.6f}: {k3[0]} was never told that {k3[2][:5]} from {k3[1][0]} ended ({ex[0][0]})")
                ex.clear()
        # ACK-HELD: every positive ack sent in this epoch must be backed by a held subscription
        for dst, ids, ep, idx in self.acked:
            held = [k for k in self.live if k[1] == dst and k[2][:5] == ids]
            expected_dead = not held
            if expected_dead:
                # the model itself says it ended again in this epoch (e.g. stop in the same message): fine
                continue
            if not any(self.latest.get(k, ("", 0))[0] == "subscribed" for k in held):
                self.viol("ACK-HELD", f"idle at {T:.6f}: Subscribe {ids} from {dst[0]} was acknowledged (TTL>0) but is not held")
        self.acked = []
        if self.pending:
            # a Subscribe for a running, matching instance was never put to the listener
            for p in self.pending:
                self.viol("TRUTH", f"idle at {T:.6f}: Subscribe {p[2][:5]} from {p[1][0]} for running instance {p[0]} was never put to its listener")
            self.pending = []
        st = (
            tuple(sorted((k[0], k[1][0], k[2][:5]) for k in self.live)),
            tuple(sorted((i.idx, i.announced, i.running) for i in self.insts)),
            tuple(sorted((k[0], k[1][0], k[2][:5], v[0]) for k, v in self.latest.items())),
        )
        self.states.add(hash(st) & 0xFFFFFFFFFFFF)
        self.epoch += 1
        self.epoch_kinds = set()

    def walk(self, log):
        self.busy = [(e[2] - e[5], e[2]) for e in log if e[4] == "busy"]  # part of the plan: known up front
        # a stalled node is, for its own timers, a busy period; while it is frozen the idle points of the loop are not its own
        self.stalls = [(e[2], e[2] + e[5]) for e in log if e[4] == "stall" and e[3] == self.node]
        self.busy += self.stalls
        for idx, (seq, it, T, actor, kind, data) in enumerate(log):
            if kind == "crash" and f"{actor}{data}" == self.node:
                break  # this incarnation is gone: nothing more happens in it, nothing more is owed by it
            if kind == "idle":
                if any(t0 <= T < t1 for t0, t1 in self.stalls):  # frozen: released when the loop clock reaches t1
                    continue
                self.on_idle(T)
            elif actor != self.node and kind != "busy":
                continue
            elif kind == "rx":
                self.on_rx(idx, T, data[0], data[1], data[2])
            elif kind == "op":
                if idx + 1 < len(log) and log[idx + 1][4] == "op-skip":
                    continue  # the engine refused the call (API misuse), nothing happened
                self.on_op(idx, T, data)
            elif kind == "cb" and data[0] in ("subscribed", "unsubscribed", "rejected"):
                self.on_cb(idx, T, data[0], data[1], data[2], data[3], data[4])
            elif kind == "tx":
                self.on_tx(idx, T, data[0], data[1], data[2])
            elif kind == "busy":
                self.on_busy(T, data)
        return self
