"""Reference model + oracle for the FindService sender (C13)."""
from sim import refdec
from sim.core import RES
from .timing import fire_limit
from .session import SessionModel
from .discovery import fmatch

INF = float("inf")
GROUP = ("224.224.224.245", 30490)


class FindOracle:
    def __init__(self, filters, timings, node="N"):
        self.node = node
        self.filters = [tuple(f) for f in filters]
        self.watched = []  # filter tuples in registration order
        self.watched_at = {}
        t = dict(INITIAL_DELAY_MIN=0.0, INITIAL_DELAY_MAX=3, REPETITIONS_MAX=3, REPETITIONS_BASE_DELAY=0.01, FIND_TTL=3)
        t.update(timings)
        self.t = t
        self.sess = SessionModel()
        self.live = {}  # (src, key) -> deadline
        self.busy = []
        self.violations = []
        self.probes = {}
        self.states = set()
        self.running = False
        self.alive = "no"  # is the find task still going to send? yes / maybe / no
        self.round = 0  # index of the next round
        self.W = None  # (lo, hi) window of the next round
        self.t_start = None
        self.nrounds = 0
        self.nfinds = 0
        self.conn_lost = False

    def probe(self, name, n=1):
        self.probes[name] = self.probes.get(name, 0) + n

    def viol(self, rule, msg, ctx):
        self.violations.append((rule, {"msg": msg, "context": ctx}))

    def tol(self, lo, hi):
        return fire_limit(self.busy, hi) - hi

    # found state of a filter at time T: 'yes' / 'no' / 'maybe'
    # self.live: (src,key) -> list of [t_from, t_to] intervals (history is kept: a missing
    # round is judged in retrospect)
    def found(self, f, T, retrospective=False):
        st = "no"
        for (src, key), ivs in self.live.items():
            if not fmatch(f, key):
                continue
            for a, b in ivs:
                if a > T + RES:
                    continue
                if retrospective and a >= T - RES:
                    st = "maybe"  # arrived in the very instant of the round
                    continue
                if b > T + RES:
                    return "yes"
                if b >= T - RES:
                    st = "maybe"
        return st

    def _end(self, sk, T):
        ivs = self.live.get(sk)
        if ivs and ivs[-1][1] > T:
            ivs[-1][1] = T

    def unfound_sets(self, T, retrospective=False):
        must, may = [], []
        for f in self.watched:
            if self.watched_at[f] > T + RES:
                continue  # not yet watched at that instant (retrospective evaluation)
            s = self.found(f, T, retrospective)
            if self.watched_at[f] >= T - RES and s == "no":
                s = "maybe"  # registered in the very instant of the round
            if s == "no":
                must.append(f)
            elif s == "maybe":
                may.append(f)
        return must, may

    def _begin(self, T):
        self.running = True
        self.t_start = T
        self.round = 0
        self.nrounds = 0
        if not self.watched:
            self.alive = "no"
            self.W = None
        else:
            self.alive = "yes"
            self.W = (T + self.t["INITIAL_DELAY_MIN"], T + self.t["INITIAL_DELAY_MAX"])

    def on_op(self, T, label):
        _, opidx, f, a = label[:4]
        if f == "watch":
            flt = self.filters[a[0]]
            if flt not in self.watched:
                self.watched.append(flt)
                self.watched_at[flt] = T
                if self.running and self.alive != "no":
                    self.probe("watch_while_rounds_running")
        elif f in ("start", "disc_start"):
            if not self.running:
                self._begin(T)
        elif f == "conn_lost":
            for sk in self.live:
                self._end(sk, T)
        elif f in ("stop", "disc_stop"):
            self.running = False
            self.alive = "no"
            self.W = None

    def on_rx(self, T, chan, src, data):
        msgs, err = refdec.split_datagram(data)
        for m in msgs:
            cls, sdm = refdec.classify(m)
            if cls != "sd":
                continue
            if self.sess.rx(src, chan == "m", sdm.reboot, m.session):
                for sk in [k for k in self.live if k[0] == src]:
                    self._end(sk, T)
            if not sdm.unicast:
                continue
            for e in sdm.entries:
                if e.type != refdec.OFFER:
                    continue
                key = (e.service, e.instance, e.major, e.value)
                if not any(fmatch(f, key) for f in self.watched):
                    continue
                self._end((src, key), T)
                if e.ttl:
                    self.live.setdefault((src, key), []).append([T, INF if e.ttl == refdec.TTL_FOREVER else T + e.ttl])

    def on_busy(self, T, d):
        pass

    def _advance(self, T_round):
        """the round at T_round happened (or was skipped): compute the next window"""
        r = self.round
        self.round += 1
        if r < self.t["REPETITIONS_MAX"]:
            d = (2**r) * self.t["REPETITIONS_BASE_DELAY"]
            self.W = (T_round[0] + d, T_round[1] + d)
        else:
            self.W = None
            self.alive = "no"

    def on_tx(self, T, src, dst, data):
        msgs, err = refdec.split_datagram(data)
        for m in msgs:
            cls, sdm = refdec.classify(m)
            if cls != "sd":
                continue
            finds = [e for e in sdm.entries if e.type == refdec.FIND]
            if not finds:
                continue
            self.nfinds += len(finds)
            if len(finds) != len(sdm.entries):
                self.viol("CONTENT", "FindService entries mixed with other entries in one message", "mixed")
            if dst != GROUP:
                self.viol("DEST", f"FindService sent to {dst} instead of the multicast group", "destination")
            for e in finds:
                if e.ttl != self.t["FIND_TTL"] or e.opts1 or e.opts2:
                    self.viol("CONTENT", f"FindService entry with ttl {e.ttl} / options, configured ttl {self.t['FIND_TTL']}", "ttl-or-options")
            got = sorted((e.service, e.instance, e.major, e.value) for e in finds)
            must, may = self.unfound_sets(T)
            for g in got:
                if g not in self.watched:
                    self.viol("FIND-SET", f"FindService for {g}, which is not a watched filter (wildcards must be preserved)", "not-watched")
                elif g not in must and g not in may:
                    self.viol("FIND-SET", f"FindService for {g} although a matching live offer is known", "already-found")
            for f in must:
                if f not in got:
                    self.viol("FIND-SET", f"round at {T:.6f} omits watched filter {f} for which no live offer is known", "omitted")
            if len(set(got)) != len(got):
                self.viol("FIND-SET", "a filter appears twice in one round", "duplicate")
            if may:
                self.probe("round_with_expiry_or_arrival_at_the_same_instant")
            # timing / count
            if self.alive == "no" or self.W is None:
                if not self.running:
                    self.viol("QUIET", f"FindService at {T:.6f} although discovery is not running", "not-running")
                elif self.nrounds >= 1 + self.t["REPETITIONS_MAX"]:
                    self.viol("MAX-ROUNDS", f"round #{self.nrounds + 1} at {T:.6f}, configured 1 + {self.t['REPETITIONS_MAX']}", "too-many")
                else:
                    self.viol("QUIET", f"FindService at {T:.6f} after every watched service had been found", "after-found")
                self.nrounds += 1
                continue
            lo, hi = self.W
            tol = self.tol(lo, hi)
            rule = "FIRST-IN-WINDOW" if self.round == 0 else "DOUBLING"
            if T < lo - RES:
                self.viol(rule, f"round #{self.round} at {T:.6f}, earliest allowed {lo:.6f}", "early")
            elif T > hi + tol + RES:
                self.viol(rule, f"round #{self.round} at {T:.6f}, latest allowed {hi + tol:.6f}", "late")
            self.probe("rounds_judged")
            if self.round == 0:
                self.probe("first_round_min_eq_max" if lo == hi else "first_round_window")
            self.nrounds += 1
            self.alive = "yes"
            self._advance((T, T))

    def on_idle(self, T):
        if self.running and self.W is not None and self.alive != "no":
            lo, hi = self.W
            lim = hi + self.tol(lo, hi)
            if T > lim + RES:
                # the round did not show up
                if lo == hi:
                    lo = hi = fire_limit(self.busy, lo)  # a busy loop runs the round's timer at the end of the busy period
                    must, may = self.unfound_sets(lo, True)
                    if must and self.alive == "yes":
                        self.viol("FIND-SET", f"no round at {lo:.6f} although {must[0]} is watched and not found", "round-missing")
                    self.alive = "no" if not must else self.alive
                    if self.alive != "no":
                        self._advance((lo, hi))
                    else:
                        self.W = None
                    self.probe("round_skipped_everything_found")
                else:
                    # window: only certain if something stayed unfound during the whole window
                    hi = fire_limit(self.busy, hi)
                    stable = [f for f in self.watched if self.watched_at[f] < lo - RES and self.found(f, lo, True) == "no" and self.found(f, hi, True) == "no" and not self._arrival_between(f, lo, hi)]
                    if stable and self.alive == "yes":
                        self.viol("FIND-SET", f"no round in [{lo:.6f}, {hi:.6f}] although {stable[0]} is watched and not found", "round-missing")
                    self.alive = "no"
                    self.W = None
        self.states.add(hash((self.round, self.alive, tuple(sorted(self.found(f, T) for f in self.watched)))) & 0xFFFFFFFFFFFF)

    def _arrival_between(self, f, lo, hi):
        return any(fmatch(f, key) for (t, key) in self.arrivals if lo - RES <= t <= hi + RES)

    def walk(self, log):
        self.busy = [(e[2] - e[5], e[2]) for e in log if e[4] == "busy"]  # part of the plan: known up front
        self.arrivals = []
        for seq, it, T, actor, kind, data in log:
            if kind == "rx" and actor == self.node:
                msgs, err = refdec.split_datagram(data[2])
                for m in msgs:
                    cls, sdm = refdec.classify(m)
                    if cls == "sd":
                        for e in sdm.entries:
                            if e.type == refdec.OFFER and e.ttl:
                                self.arrivals.append((T, (e.service, e.instance, e.major, e.value)))
        for idx, (seq, it, T, actor, kind, data) in enumerate(log):
            if kind == "idle":
                self.on_idle(T)
            elif kind == "busy":
                self.on_busy(T, data)
            elif actor != self.node:
                continue
            elif kind == "op":
                if idx + 1 < len(log) and log[idx + 1][4] == "op-skip":
                    continue
                self.on_op(T, data)
            elif kind == "rx":
                self.on_rx(T, data[0], data[1], data[2])
            elif kind == "tx":
                self.on_tx(T, data[0], data[1], data[2])
        return self
