"""Reference model + oracle for the client side (found services): C05 rules
ALT / TRUTH / REBOOT-ORDER / FILTER and the discovery half of C09
(EXPIRY-TIME, SPURIOUS-STOP).

The model is driven by the event log only: datagrams as delivered (decoded by
the independent reference decoder), API calls as executed, listener callbacks
as observed.  It never looks at library state.
"""
from sim import refdec
from sim.core import RES
from .timing import fire_limit
from .session import SessionModel

INF = float("inf")
DEAD = -INF
WILD = (None, 0xFFFF, 0xFF, 0xFFFFFFFF)


def fmatch(f, key):
    """filter tuple (with wildcards) accepts concrete service key"""
    if f == "all":
        return True
    if f[0] != key[0]:
        return False
    for i in (1, 2, 3):
        if f[i] != WILD[i] and key[i] != WILD[i] and f[i] != key[i]:
            return False
    return True


class DiscoveryOracle:
    def __init__(self, filters, node="N", rate=1.0):
        self.filters = [tuple(f) for f in filters]
        self.node = node
        self.rate = rate  # clock rate of the node (drift fault)
        self.sess = SessionModel()
        self.cands = {}  # (src,key) -> list of deadlines (INF, finite, DEAD)
        self.ever_filters = set()
        self.certain = {}  # (src,key) -> bool
        self.replaced = {}  # (src,key) -> list of (deadline, epoch)
        self.regs = {}  # lname -> filter | "all"
        self.was_reg = {}  # lname -> filter (ever)
        self.mark = set()  # (lname, src, key): must currently be 'offered'
        self.latest = {}  # (lname, src, key) -> (kind, log index)
        self.explain = {}  # (lname, src, key) -> [(cause, epoch)]
        self.busy = []  # (t0, t1)
        self.epoch = 0
        self.epoch_kinds = set()
        self.reboots = []  # (src, log index, epoch)
        self.violations = []
        self.probes = {}
        self.states = set()
        self.ncb = 0
        self.ntruth = 0
        self.rx_in_epoch = []
        self.conn_lost = False
        self.cur_idx = 0

    # ---------------------------------------------------------------- helpers
    def probe(self, name, n=1):
        self.probes[name] = self.probes.get(name, 0) + n

    def viol(self, rule, msg):
        site = "+".join(sorted(self.epoch_kinds)) or "quiet"
        self.violations.append((rule, {"msg": msg, "context": site}))

    def live_possible(self, sk, T):
        return any(d > T + RES for d in self.cands.get(sk, ()))

    def live_certain(self, sk, T):
        c = self.cands.get(sk)
        return bool(c) and self.certain.get(sk, False) and all(d > T + RES for d in c)

    def registered_matching(self, key):
        return [l for l, f in self.regs.items() if fmatch(f, key)]

    def filter_known(self, key):
        """a filter that was watched once (watch_service, not watch-all) stays a key of the stack's table"""
        return any(f != "all" and fmatch(f, key) for f in self.ever_filters)

    def _kill(self, sk, cause):
        """certain removal of (src,key): every registered listener that was told
        'offered' is owed one 'stopped'"""
        src, key = sk
        marked = set()
        for l in self.registered_matching(key):
            if (l, src, key) in self.mark:
                marked.add(l)  # an offer of this very epoch may not have been reported yet (its callback follows in the log)
            self.mark.discard((l, src, key))
        if sk not in self.cands:
            return  # nothing was live: nothing is owed
        owed = self.certain.get(sk, False) and all(d != DEAD for d in self.cands[sk])
        told = {l for (l, s, k), (kind, _) in self.latest.items() if (s, k) == sk and kind == "offered"}
        for l in told | marked:
            self.explain.setdefault((l, src, key), []).append((cause, self.epoch, owed and l in told, self.cur_idx))
        self.cands.pop(sk, None)
        self.certain.pop(sk, None)

    # ---------------------------------------------------------------- events
    def on_rx(self, idx, T, chan, src, data):
        msgs, err = refdec.split_datagram(data)
        for m in msgs:
            cls, sdm = refdec.classify(m)
            if cls != "sd":
                continue
            self.rx_in_epoch.append(src)
            if self.sess.rx(src, chan == "m", sdm.reboot, m.session):
                self.epoch_kinds.add("reboot")
                self.reboots.append((src, idx, self.epoch))
                had = [sk for sk in list(self.cands) if sk[0] == src]
                if had and any(e.type == refdec.OFFER and e.ttl for e in sdm.entries) and sdm.unicast:
                    self.probe("reboot_evidence_with_offer_in_one_message")
                for sk in had:
                    self._kill(sk, "reboot")
            if not sdm.unicast:
                continue
            for e in sdm.entries:
                if e.type != refdec.OFFER:
                    continue
                key = (e.service, e.instance, e.major, e.value)
                sk = (src, key)
                listeners = self.registered_matching(key)
                if e.ttl == 0:
                    self.epoch_kinds.add("stopoffer")
                    if listeners:
                        self._kill(sk, "stopoffer")
                    elif self.filter_known(key):
                        # nobody listens at the moment, but the filter is still known to the stack: the entry goes for sure
                        self.cands.pop(sk, None)
                        self.certain.pop(sk, None)
                    elif sk in self.cands:
                        self.cands[sk].append(DEAD)
                        self.certain[sk] = False
                        self.probe("unwatched_stopoffer")
                    continue
                self.epoch_kinds.add("offer")
                d = INF if e.ttl == refdec.TTL_FOREVER else T + e.ttl * self.rate
                old = self.cands.get(sk, [])
                due = [x for x in old if x != DEAD and x <= T + RES]
                if due:
                    self.probe("offer_and_deadline_in_one_epoch")
                    self.epoch_kinds.add("deadline")
                    self.replaced.setdefault(sk, []).extend((x, self.epoch) for x in due)
                if listeners:
                    self.cands[sk] = [d]
                    self.certain[sk] = True
                    for l in listeners:
                        self.mark.add((l, src, key))
                elif self.filter_known(key):
                    # the last listener of a filter may be gone, the filter stays known to the stack (its listener set is
                    # empty): offers for it are stored and refreshed as before, a listener that comes later is told
                    self.probe("offer_for_filter_without_listener")
                    self.cands[sk] = [d]
                    self.certain[sk] = True
                else:
                    self.probe("unwatched_offer")
                    self.cands.setdefault(sk, [DEAD] if not old else []).append(d)
                    self.certain[sk] = False

    def on_op(self, idx, T, label):
        _, opidx, f, a = label[:4]
        self.epoch_kinds.add(f)
        if f in ("watch", "watch_all"):
            name = a[-1]
            if name in self.regs or name in self.was_reg:
                return
            flt = "all" if f == "watch_all" else self.filters[a[0]]
            self.regs[name] = flt
            self.was_reg[name] = flt
            self.ever_filters.add(flt)
            if self.rx_in_epoch:
                self.probe("watch_in_epoch_with_rx")
        elif f in ("unwatch", "unwatch_all"):
            name = a[-1]
            if name in self.regs:
                del self.regs[name]
                for (l, s, k), (kind, _) in self.latest.items():
                    if l == name and kind == "offered":
                        self.explain.setdefault((l, s, k), []).append(("unwatch", self.epoch, True, self.cur_idx))
                self.mark = {m for m in self.mark if m[0] != name}
        elif f == "conn_lost":
            self.conn_lost = True
            for sk in list(self.cands):
                self._kill(sk, "conn_lost")

    def on_busy(self, T, d):
        pass
        self.epoch_kinds.add("busy")

    def expected_fire(self, d):
        return fire_limit(self.busy, d)

    def on_cb(self, idx, T, kind, lname, key, src):
        self.ncb += 1
        k3 = (lname, src, key)
        flt = self.was_reg.get(lname)
        if flt is None or not fmatch(flt, key):
            self.viol("FILTER", f"{kind} for {key} to listener {lname} with filter {flt}")
        prev = self.latest.get(k3)
        if kind == "offered":
            if prev is not None and prev[0] == "offered":
                self.viol("ALT", f"'offered' after 'offered' for listener {lname} key {key} from {src[0]}")
            # reboot ordering: nothing learnt before the reboot may still stand as offered
            for rsrc, ridx, repoch in self.reboots:
                if rsrc == src and repoch == self.epoch:
                    for (l, s, k), (pk, pidx) in self.latest.items():
                        if l == lname and s == src and pk == "offered" and pidx < ridx:
                            self.viol(
                                "REBOOT-ORDER",
                                f"offer {key} reported to {lname} while pre-reboot {k} from {src[0]} not yet reported stopped",
                            )
                            break
        else:
            if prev is None:
                self.viol("ALT", f"'stopped' before any 'offered' for listener {lname} key {key} from {src[0]}")
            elif prev[0] == "stopped":
                self.viol("ALT", f"'stopped' after 'stopped' for listener {lname} key {key} from {src[0]}")
            self._explain_stop(k3, T)
        self.latest[k3] = (kind, idx)

    def _explain_stop(self, k3, T):
        lname, src, key = k3
        sk = (src, key)
        ex = self.explain.get(k3)
        if ex:
            cause, ep, _owed, _at = ex.pop(0)
            # an explicit removal is reported in the epoch in which it happened
            if ep != self.epoch:
                self.viol("EXPIRY-TIME", f"'stopped' for {key} ({cause}) delivered after the loop went idle")
            return
        cands = [d for d in self.cands.get(sk, ()) if d not in (INF, DEAD)]
        cands += [d for d, ep in self.replaced.get(sk, ()) if ep == self.epoch]
        for d in cands:
            if d - RES <= T <= self.expected_fire(d) + RES:
                self.probe("expiry_on_time")
                return
        if cands:
            d = min(cands, key=lambda x: abs(x - T))
            rule = "EXPIRY-TIME"
            msg = f"'stopped' for {key} at {T:.6f} but deadline is {d:.6f} ({'early' if T < d else 'late'})"
        else:
            rule = "SPURIOUS-STOP"
            msg = f"'stopped' for {key} at {T:.6f} with no stop-offer, reboot, connection loss or finite deadline to explain it"
        self.viol(rule, msg)

    def on_idle(self, T):
        # timers due in the finished epoch have fired
        for sk in list(self.cands):
            c = self.cands[sk]
            keep = [d for d in c if d == DEAD or d > T + RES]
            if len(keep) != len(c):
                src, key = sk
                if not any(d != DEAD for d in keep):
                    for l in list(self.regs):
                        self.mark.discard((l, src, key))
                    self.cands.pop(sk)
                    self.certain.pop(sk, None)
                else:
                    self.cands[sk] = keep
        # TRUTH for registered listeners
        for lname, flt in self.regs.items():
            for (l, src, key), (kind, _) in self.latest.items():
                if l != lname:
                    continue
                if kind == "offered":
                    self.ntruth += 1
                    if not self.live_possible((src, key), T):
                        self.viol("TRUTH", f"idle at {T:.6f}: {lname} believes {key} from {src[0]} offered, but no live offer exists")
        for lname, src, key in self.mark:
            self.ntruth += 1
            got = self.latest.get((lname, src, key))
            if self.live_certain((src, key), T) and (got is None or got[0] != "offered"):
                self.viol(
                    "TRUTH",
                    f"idle at {T:.6f}: live offer {key} from {src[0]} arrived while {lname} was registered, latest notification is {got and got[0]}",
                )
        # owed 'stopped' notifications must have arrived by now
        for k3, ex in self.explain.items():
            if ex:
                lname = k3[0]
                kind, at = self.latest.get(k3, ("", 0))
                # owed and still standing as 'offered' from before the removal (a later re-offer is fine)
                owed = [x for x in ex if x[2] and at < x[3]]
                if owed and kind == "offered" and (lname in self.regs):
                    ex[0] = owed[0]
                    self.viol("TRUTH", f"idle at {T:.6f}: {lname} was never told that {k3[2]} from {k3[1][0]} stopped ({ex[0][0]})")
                ex.clear()
        st = (
            tuple(sorted((sk[0][0], sk[1], len(c), self.certain.get(sk)) for sk, c in self.cands.items())),
            tuple(sorted(self.regs)),
            tuple(sorted((k[0], k[1][0], k[2], v[0]) for k, v in self.latest.items())),
        )
        self.states.add(hash(st) & 0xFFFFFFFFFFFF)
        self.epoch += 1
        self.epoch_kinds = set()
        self.rx_in_epoch = []

    # ---------------------------------------------------------------- driver
    def walk(self, log):
        self.busy = [(e[2] - e[5], e[2]) for e in log if e[4] == "busy"]  # part of the plan: known up front
        # a stalled node is, for its own timers, a busy period; while it is frozen the idle points of the loop are not its own
        self.stalls = [(e[2], e[2] + e[5]) for e in log if e[4] == "stall" and e[3] == self.node]
        self.busy += self.stalls
        for idx, (seq, it, T, actor, kind, data) in enumerate(log):
            self.cur_idx = idx
            if kind == "crash" and f"{actor}{data}" == self.node:
                break  # this incarnation is gone: nothing more happens in it, nothing more is owed by it
            if kind == "idle":
                if any(t0 <= T < t1 for t0, t1 in self.stalls):  # frozen: released when the loop clock reaches t1
                    continue
                self.on_idle(T)
            elif actor != self.node and kind != "busy":
                continue
            elif kind == "rx":
                self.on_rx(idx, T, data[0], data[1], data[2])
            elif kind == "op":
                if idx + 1 < len(log) and log[idx + 1][4] == "op-skip":
                    continue  # the engine refused the call (API misuse), nothing happened
                self.on_op(idx, T, data)
            elif kind == "cb" and data[0] in ("offered", "stopped"):
                self.on_cb(idx, T, data[0], data[1], data[2], data[3])
            elif kind == "busy":
                self.on_busy(T, data)
        return self
