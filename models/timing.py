"""timing tolerance shared by the models: a timer due at t fires at t, unless
the loop is inside an injected busy period (possibly a chain of them), in
which case it fires when the busy period ends"""
from sim.core import RES


def fire_limit(busy, t):
    """latest instant at which a timer due at t can run, given busy intervals [(t0, t1)]"""
    limit = t
    changed = True
    while changed:
        changed = False
        for t0, t1 in busy:
            if t0 - RES <= limit and t1 > limit:
                limit = t1
                changed = True
    return limit


def fire_start(busy, T):
    """earliest due time of a timer that runs at T: T itself, or the start of the
    busy chain that ends at T"""
    start = T
    changed = True
    while changed:
        changed = False
        for t0, t1 in busy:
            if abs(t1 - start) <= RES and t0 < start:
                start = t0
                changed = True
    return start
