"""SubscribeServerModel + oracle for the client-side subscriber (C14): a model
server per destination applies the Subscribe / StopSubscribe entries in the
order they leave the transport."""
from sim import refdec
from sim.core import RES
from .timing import fire_limit

GROUP = ("224.224.224.245", 30490)


def eg_option(e):
    host, port = e["sockname"][0], e["sockname"][1]
    l4 = 6 if e.get("proto", "UDP") == "TCP" else 17
    if ":" in host:
        import ipaddress

        return ("ep", 6, str(ipaddress.IPv6Address(host)), l4, port)
    return ("ep", 4, host, l4, port)


class SubscriberOracle:
    def __init__(self, eventgroups, timings, peers, node="N"):
        self.node = node
        self.egs = eventgroups
        self.peers = peers
        self.ttl = timings.get("SUBSCRIBE_TTL", 5)
        self.refresh = timings.get("SUBSCRIBE_REFRESH_INTERVAL", 3)
        self.requested = set()  # (ei, pi)
        self.alive = False
        self.server = {}  # dst -> set of keys held by the model server
        self.last_sub = {}  # (dst, key) -> time of the latest Subscribe
        self.since = {}  # (ei, pi) -> time from which it is requested and running
        self.violations = []
        self.probes = {}
        self.states = set()
        self.nsub = 0
        self.busy = []

    def probe(self, name, n=1):
        self.probes[name] = self.probes.get(name, 0) + n

    def viol(self, rule, msg, ctx):
        self.violations.append((rule, {"msg": msg, "context": ctx}))

    def key(self, ei):
        e = self.egs[ei]
        return (e["svc"], e["inst"], e["major"], e["eg"], 0, (eg_option(e),))

    def on_op(self, T, label):
        _, opidx, f, a = label[:4]
        if f == "subscribe":
            self.requested.add((a[0], a[1]))
            if self.alive:
                self.since[(a[0], a[1])] = T
        elif f == "stop_subscribe":
            self.requested.discard((a[0], a[1]))
            self.since.pop((a[0], a[1]), None)
        elif f in ("sub_start", "start"):
            if not self.alive:
                self.alive = True
                for r in self.requested:
                    self.since[r] = T
        elif f in ("sub_stop", "stop", "conn_lost"):
            self.alive = False
            self.since.clear()
            if f == "conn_lost":
                self.probe("conn_lost")

    def on_tx(self, T, src, dst, data):
        msgs, err = refdec.split_datagram(data)
        for m in msgs:
            cls, sdm = refdec.classify(m)
            if cls != "sd":
                continue
            for e in sdm.entries:
                if e.type != refdec.SUBSCRIBE:
                    continue
                self.nsub += 1
                k = (e.service, e.instance, e.major, refdec.entry_eventgroup(e), refdec.entry_counter(e), tuple(e.opts1) + tuple(e.opts2))
                known = {self.key(ei): (ei, pi) for ei in range(len(self.egs)) for pi in range(len(self.peers)) if self.peers[pi] == dst}
                if dst == GROUP or dst not in self.peers:
                    self.viol("DEST", f"Subscribe entry sent to {dst}", "not-a-server")
                    continue
                if k not in known:
                    self.viol("CONTENT", f"Subscribe entry {k} to {dst[0]} matches no configured eventgroup (ids, counter, endpoint option)", "unknown-entry")
                    continue
                if e.ttl == 0:
                    self.server.setdefault(dst, set()).discard(k)
                    self.probe("stopsubscribe_sent")
                    continue
                if e.ttl != self.ttl:
                    self.viol("CONTENT", f"Subscribe for {k[:4]} carries TTL {e.ttl}, configured {self.ttl}", "ttl")
                ei, pi = known[k]
                if (ei, pi) not in self.requested and True:
                    # not requested from this server (any more): only tolerable if a StopSubscribe follows, MIRROR decides
                    self.probe("subscribe_for_unrequested")
                self.server.setdefault(dst, set()).add(k)
                prev = self.last_sub.get((dst, k))
                self.last_sub[(dst, k)] = T
                r = (ei, pi)
                if self.refresh and r in self.since and prev is not None and prev >= self.since[r] - RES:
                    lim = fire_limit(self.busy, prev + self.refresh)
                    if T > lim + RES:
                        self.viol("REFRESH-GAP", f"Subscribe for {k[:4]} to {dst[0]} re-sent after {T - prev:.6f}s, refresh interval {self.refresh}", "late")
                    else:
                        self.probe("refresh_judged")

    def on_idle(self, T):
        want = {}
        if self.alive:
            for ei, pi in self.requested:
                want.setdefault(self.peers[pi], set()).add(self.key(ei))
        for dst in set(want) | set(self.server):
            held = self.server.get(dst, set())
            w = want.get(dst, set())
            if held != w:
                extra, missing = held - w, w - held
                if extra:
                    ctx = "held-after-stop" if not self.alive else "held-after-stop-subscribe"
                    self.viol("MIRROR", f"idle at {T:.6f}: model server {dst[0]} still holds {sorted(x[:4] for x in extra)} which is not requested{'' if self.alive else ' (subscriber stopped)'}", ctx)
                if missing:
                    self.viol("MIRROR", f"idle at {T:.6f}: model server {dst[0]} lacks requested {sorted(x[:4] for x in missing)}", "requested-not-held")
        # a requested subscription must be (re)sent in time
        if self.alive and self.refresh:
            for r, t0 in self.since.items():
                dst, k = self.peers[r[1]], self.key(r[0])
                last = self.last_sub.get((dst, k))
                base = last if last is not None and last >= t0 - RES else t0 - self.refresh
                if T > fire_limit(self.busy, base + self.refresh) + RES:
                    self.viol("REFRESH-GAP", f"idle at {T:.6f}: Subscribe for {k[:4]} to {dst[0]} not sent since {base:.6f}", "missing")
                    self.last_sub[(dst, k)] = T
        self.states.add(hash((self.alive, tuple(sorted(self.requested)), tuple(sorted((d[0], len(s)) for d, s in self.server.items())))) & 0xFFFFFFFFFFFF)

    def walk(self, log):
        self.busy = [(e[2] - e[5], e[2]) for e in log if e[4] == "busy"]
        for idx, (seq, it, T, actor, kind, data) in enumerate(log):
            if kind == "idle":
                self.on_idle(T)
            elif actor != self.node:
                continue
            elif kind == "op":
                if idx + 1 < len(log) and log[idx + 1][4] == "op-skip":
                    continue
                self.on_op(T, data)
            elif kind == "tx":
                self.on_tx(T, data[0], data[1], data[2])
        return self
