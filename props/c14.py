"""C14 — client subscription messages mirror the requested subscription set."""
from models.subscriber import SubscriberOracle
from sim.core import RES
from sim.single import PEERS
from .common import COMPONENTS, ASSUMPTIONS, rng, add_send_errors  # noqa: F401

ID = "C14"
LEVEL = "exploration"
MINIMISE_S = 6.0
RULES = {
    "MIRROR": "at every idle point a model server per destination, applying the Subscribe / StopSubscribe entries in transmission order, holds exactly the eventgroups requested from it while the subscriber runs, and nothing once it is stopped",
    "CONTENT": "each Subscribe names the eventgroup's ids, counter 0, the configured TTL and one endpoint option with the local address, port and transport protocol",
    "DEST": "Subscribe entries go only to the server they were requested for",
    "REFRESH-GAP": "while requested and running a subscription is sent again no later than one refresh interval after the previous Subscribe (or after the request / start)",
}
RULE_TEXT = (
    "random plans: 4 eventgroups (IPv4 and IPv6 local endpoints, UDP and TCP, two services) x 3-4 servers (a third of the plans request something from every server before the first round), 3-25 operations "
    "(subscribe, stop-subscribe without duplicates, subscriber start / stop, busy periods) at random instants, several in one instant, "
    "and at +-100us / +-res/4 / exactly at the refresh ticks; finite TTL with refresh 0.5 / 1 / 3 s and infinite TTL without refresh; "
    "timer-phase and I/O-phase placement of the calls. non-trivial = at least one Subscribe entry was judged; distinct = interleaving signature"
)
PROBES = ["refresh_judged", "stopsubscribe_sent", "ops_in_one_instant", "op_at_refresh_tick"]
RUNS = {"quick": 40000, "thorough": 3000000}
EGS = [
    {"svc": 0x1111, "inst": 1, "major": 1, "eg": 1, "sockname": ["10.0.0.1", 4000], "proto": "UDP"},
    {"svc": 0x1111, "inst": 1, "major": 1, "eg": 2, "sockname": ["10.0.0.1", 4000], "proto": "TCP"},
    {"svc": 0x2222, "inst": 5, "major": 2, "eg": 1, "sockname": ["fd00::1", 4001, 0, 0], "proto": "UDP"},
    {"svc": 0x1111, "inst": 2, "major": 1, "eg": 1, "sockname": ["10.0.0.1", 4002], "proto": "UDP"},
    {"svc": 0x1111, "inst": 1, "major": 1, "eg": 1, "sockname": ["fd00::1", 4000, 0, 0], "proto": "UDP"},  # the first eventgroup again, on another local endpoint
]
# ... and a client with many eventgroups of one service (more than any per-message limit one might think of)
EGS_MANY = EGS + [{"svc": 0x3333, "inst": 1, "major": 1, "eg": 0x100 + i, "sockname": ["10.0.0.1", 4003], "proto": "UDP"} for i in range(40)]
OFFS = [-1e-4, -RES / 4, 0.0, RES / 4, 1e-4]


def budget(tier):
    return RUNS[tier], {"quick": 150, "thorough": 1800}[tier]


def gen(seed, idx, tier):
    r = rng(seed, ID, idx)
    ttl, refresh = r.choice([(5, 3), (3, 1.0), (2, 0.5), (0xFFFFFF, None), (5, 1.0)])
    timings = {"SUBSCRIBE_TTL": ttl, "SUBSCRIBE_REFRESH_INTERVAL": refresh, "INITIAL_DELAY_MIN": 0, "INITIAL_DELAY_MAX": 0, "REPETITIONS_MAX": 0}
    cfg = {"eventgroups": EGS, "timings": timings}
    ops = []
    t = 0.0
    requested = set()
    starts = []
    alive = False
    servers = r.choice([[0, 1, 2], [0, 1, 2], [0, 1, 2, 3], [0, 4, 5], [4, 5, 1, 2]])  # 4, 5: link-local IPv6 twins (scope ids 2, 3)
    NS = len(servers)
    if r.random() < 0.3:
        # a full house from the start: something is requested from every server before the first round
        for pi in servers:
            ei = r.randrange(len(EGS))
            ops.append({"k": "call", "t": 0.0, "f": "subscribe", "a": [ei, pi]})
            requested.add((ei, pi))
        if r.random() < 0.3:
            # one server is asked for 17-40 eventgroups
            cfg["eventgroups"] = EGS_MANY
            for ei in range(len(EGS), len(EGS) + r.choice([17, 20, 31, 33, 40])):
                ops.append({"k": "call", "t": 0.0, "f": "subscribe", "a": [ei, servers[0]]})
                requested.add((ei, servers[0]))
        ops.append({"k": "call", "t": 0.0, "f": "sub_start", "a": []})
        starts.append(0.0)
        alive = True
    for j in range(r.randint(3, 25)):
        u = r.random()
        if u < 0.3 and ops:
            pass  # same instant as the previous op
        elif u < 0.6 and starts and refresh:
            # around a refresh tick of the current run of the subscriber
            k = r.randint(1, 4)
            tick = starts[-1] + k * refresh
            if tick + 1e-3 > t:
                t = max(t, tick + r.choice(OFFS))
        else:
            t = round(t + r.uniform(0, 1.2), 6)
        ph = r.choice(["io", "io", "timer", "late"])
        behind = False
        if starts and r.random() < 0.15:
            behind = True
            # right behind the start of a round: the instant of a (re)start or of a refresh tick, after the timers
            # of that instant, or a hair later (the round may still be under way)
            tick = starts[-1] + (r.randint(0, 4) * refresh if refresh else 0.0)
            if tick >= t - 1e-9:
                t = round(tick + r.choice([0.0, 0.0, RES / 4]), 9)
                ph = "late"
            else:
                behind = False
        x = r.random()
        if x < 0.40:
            ei, pi = r.randrange(len(EGS)), r.choice(servers)
            if (ei, pi) in requested:
                f, a = "stop_subscribe", [ei, pi]
                requested.discard((ei, pi))
            else:
                f, a = "subscribe", [ei, pi]
                requested.add((ei, pi))
        elif x < 0.60 and requested:
            ei, pi = r.choice(sorted(requested))
            f, a = "stop_subscribe", [ei, pi]
            requested.discard((ei, pi))
        elif x < 0.78:
            f, a = "sub_start", []
            if not alive:
                starts.append(t)
            alive = True
        elif x < 0.92:
            f, a = "sub_stop", []
            alive = False
        else:
            ops.append({"k": "busy", "t": max(0.0, t - 0.001), "d": r.choice([0.002, 0.02])})
            continue
        op = {"k": "call", "t": t, "f": f, "a": a}
        if ph != "io":
            op["ph"] = ph
        if behind:
            op["defer"] = r.randint(0, 4)  # this many loop iterations later: in the middle of the round, if it takes several
        ops.append(op)
    until = t + (2 * refresh + 0.5 if refresh else 1.0)
    add_send_errors(cfg, seed, ID, idx)
    return {"engine": "single", "property": ID, "class": "random", "seed": seed, "cfg": cfg, "ops": ops, "until": round(until, 6)}


MY_RULES = set(RULES)


def check(plan, res):
    o = SubscriberOracle(plan["cfg"]["eventgroups"], plan["cfg"]["timings"], PEERS).walk(res.log)
    v = [(r, d) for r, d in o.violations if r in MY_RULES]
    probes = dict(o.probes)
    times = [op["t"] for op in plan["ops"] if op["k"] == "call"]
    if len(times) != len(set(times)):
        probes["ops_in_one_instant"] = 1
    foreign = bool(res.loop_exc or res.swallowed or res.op_exc)
    return {"violations": v, "nontrivial": o.nsub > 0, "probes": probes, "states": o.states, "foreign": foreign}


def site(rule, plan, detail):
    return detail.get("context", "general")
