"""C05 — discovery listeners see a truthful, strictly alternating history."""
from models.discovery import DiscoveryOracle
from .builders import Builder, INF_TTL, decode_index, sweep_count as _sc
from .common import COMPONENTS, ASSUMPTIONS, rng, site_from_detail  # noqa: F401

ID = "C05"
LEVEL = "exploration"
MINIMISE_S = 6.0
RULES = {
    "ALT": "per (listener, service instance, source): notifications alternate offered, stopped, ... starting with offered",
    "TRUTH": "at every idle point, for registered listeners: latest=='offered' only if a live offer can exist; a live offer that arrived while the listener was registered implies latest=='offered'; every explicit removal has been reported",
    "REBOOT-ORDER": "after a message with reboot evidence, no 'offered' from that source is reported while something learnt before is still standing as offered",
    "FILTER": "no notification for a service the listener's filter rejects",
}
RULE_TEXT = (
    "sweep: i-th run = i-th history over a 21-symbol alphabet (offers ttl 1/2/inf, stop-offer, reboot+offer/find, connection loss, "
    "watch/unwatch/watch-all, same-instant, deadline-aligned advances, busy period across a deadline) after 'start; watch'; "
    "random: histories of 5-40 symbols over 3 peers x 4 services x 5 filters x both channels. non-trivial = at least one listener "
    "callback and one TRUTH evaluation happened; distinct = distinct interleaving signature (ordered (actor, kind, shape) of all events)"
)
PROBES = [
    "offer_and_deadline_in_one_epoch",
    "reboot_evidence_with_offer_in_one_message",
    "watch_in_epoch_with_rx",
    "unwatched_offer",
    "expiry_on_time",
]
HASHSEEDS = [1, 2]

S1, S2 = 0x1111, 0x2222
X, Y, Z, W = (S1, 1, 1, 0), (S1, 2, 1, 0), (S2, 1, 1, 5), (S1, 1, 2, 0)
X7 = (S1, 1, 1, 7)  # same service / instance / major as X, another minor version
KEYS = [X, Y, Z, W, X7]
FILTERS = [[S1, 0xFFFF, 0xFF, 0xFFFFFFFF], [S1, 1, 1, 0xFFFFFFFF], [S2, 0xFFFF, 1, 5], [S1, 2, 0xFF, 0], [S1, 1, 1, 7]]
NSYM = 21
SWEEP_LEN = {"quick": 3, "thorough": 4}
RANDOM_RUNS = {"quick": 40000, "thorough": 3000000}


def sweep_count(L):
    return _sc(NSYM, L)


def budget(tier):
    return sweep_count(SWEEP_LEN[tier]) + RANDOM_RUNS[tier], {"quick": 120, "thorough": 1500}[tier]


def EXHAUSTIVE(tier, complete):
    return {"alphabet": NSYM, "max_length": SWEEP_LEN[tier], "histories": sweep_count(SWEEP_LEN[tier]), "completed": complete}


class B(Builder):
    def __init__(self):
        super().__init__()
        self.at0("start")
        self.at0("watch", [0, "L0"])
        self.nl = 1
        self.flisteners = [(0, "L0")]
        self.alisteners = []

    def symbol(self, s):
        if s == 0:
            self.offer(0, X, 1)
        elif s == 1:
            self.offer(0, X, 2)
        elif s == 2:
            self.offer(0, X, INF_TTL)
        elif s == 3:
            self.offer(0, Y, 1)
        elif s == 4:
            self.offer(1, X, 1)
        elif s == 5:
            self.offer(0, X, 0)
        elif s == 6:
            self.preboot(0)
            self.offer(0, X, 1)
        elif s == 7:
            self.preboot(0)
            self.find(0)
        elif s == 8:
            self.preboot(0)
            self.offer(0, Y, 1)
        elif s == 9:
            self.call("conn_lost")
        elif s == 10:
            self.watch(0)
        elif s == 11:
            self.unwatch(0)
        elif s == 12:
            self.watch_all()
        elif s == 13:
            self.unwatch_all()
        else:
            # 14: +0.3s, 15: deadline-100us, 16: -res/4, 17: exact, 18: +100us, 19: busy across, 20: same instant
            self.time_symbol({14: 0, 15: 1, 16: 2, 17: 3, 18: 5, 19: 6, 20: 7}[s])

    def watch(self, fi):
        name = f"L{self.nl}"
        self.nl += 1
        self.flisteners.append((fi, name))
        self.call("watch", [fi, name])

    def unwatch(self, pos):
        if self.flisteners:
            fi, name = self.flisteners.pop(pos % len(self.flisteners))
            self.call("unwatch", [fi, name])

    def watch_all(self):
        name = f"A{self.nl}"
        self.nl += 1
        self.alisteners.append(name)
        self.call("watch_all", [name])

    def unwatch_all(self):
        if self.alisteners:
            self.call("unwatch_all", [self.alisteners.pop(0)])

    def plan(self, seed, cls, cfg=None):
        c = {"filters": FILTERS, "timings": {"INITIAL_DELAY_MIN": 0.0, "INITIAL_DELAY_MAX": 0.0, "REPETITIONS_MAX": 0}}
        if cfg:
            c.update(cfg)
        return {"engine": "single", "property": ID, "class": cls, "seed": seed, "cfg": c, "ops": self.ops, "until": self.until()}


def sweep_plan(i):
    syms = decode_index(i, NSYM)
    b = B()
    for s in syms:
        b.symbol(s)
    p = b.plan(0, "sweep")
    p["symbols"] = syms
    return p


def random_plan(seed, idx):
    r = rng(seed, ID, idx)
    b = B()
    for _ in range(r.randint(5, 40)):
        b.random_time(r)
        k = r.random()
        p = r.randrange(3)
        key = r.choice(KEYS)
        ch = r.choice("mmu")
        # endpoint options come and go between the offers (and the StopOffer) of one service instance: same instance
        opts = r.choice([None, None, None, [["ep", 4, f"10.0.0.{11 + p}", 17, 30500]], [["ep", 4, f"10.0.0.{11 + p}", 17, 30501]], [["ep", 4, f"10.0.0.{11 + p}", 17, 30500], ["ep", 4, f"10.0.0.{11 + p}", 6, 30500]]])
        if k < 0.40:
            extra = None
            if r.random() < 0.15:
                k2 = r.choice(KEYS)
                extra = [["offer", k2[0], k2[1], k2[2], k2[3], r.choice([0, 1, 2, INF_TTL])]]
            second = None
            if r.random() < 0.08:
                k3 = r.choice(KEYS)  # a second SD message in the same datagram
                second = [["offer", k3[0], k3[1], k3[2], k3[3], r.choice([0, 1, 3, INF_TTL])]]
            b.offer(p, key, r.choice([1, 1, 2, 3, INF_TTL]), ch, extra, second=second, opts=opts)
            if r.random() < 0.12:
                b.ops[-1]["port"] = 40001  # a second SD endpoint on that source's host: a source of its own
            elif second is None and r.random() < 0.12:
                # a peer that wrapped its session counter long ago (reboot flag clear): its datagrams may be duplicated or
                # reordered (an equal or lower id follows) and the counter may wrap again (0xFFFF -> 1) - no reboot any of it
                b.ops[-1]["sess"] = [0, r.choice([1, 2, 2, 3, 5, 0xFFFF, 0xFFFE])]
        elif k < 0.50:
            b.offer(p, key, 0, ch, opts=opts)
        elif k < 0.65:
            b.preboot(p)
            w = r.random()
            if w < 0.6:
                b.offer(p, key, r.choice([1, 2, 3, INF_TTL]), ch, opts=opts)
                if r.random() < 0.15:
                    b.ops[-1]["port"] = 40001
            elif w < 0.8:
                b.find(p, ch)
            else:
                b.offer(p, r.choice(KEYS), 1, ch)
        elif k < 0.67:
            b.call("conn_lost", r.choice([[], ["u"], ["m"], ["u"]]))
        elif k < 0.80:
            b.watch(r.randrange(len(FILTERS)))
        elif k < 0.88:
            b.unwatch(r.randrange(8))
        elif k < 0.94:
            b.watch_all()
        else:
            b.unwatch_all()
    return b.plan(seed, "random", {"sock_flip": r.choice([0, 0.5, 1.0])})


def gen(seed, idx, tier):
    ns = sweep_count(SWEEP_LEN[tier])
    if idx < ns:
        return sweep_plan(idx)
    return random_plan(seed, idx - ns)


MY_RULES = set(RULES)


def check(plan, res):
    o = DiscoveryOracle(plan["cfg"]["filters"]).walk(res.log)
    foreign = bool(res.loop_exc or res.swallowed or res.op_exc)
    v = [(r, d) for r, d in o.violations if r in MY_RULES]
    if res.stats.get("multi_socket_iteration"):
        o.probe("two_sockets_one_iteration", res.stats["multi_socket_iteration"])
    return {
        "violations": v,
        "nontrivial": o.ncb > 0 and o.ntruth > 0,
        "probes": o.probes,
        "states": o.states,
        "foreign": foreign,
    }


site = site_from_detail
