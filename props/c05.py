"""C05 — discovery listeners see a truthful, strictly alternating history."""
from models.discovery import DiscoveryOracle
from sim.core import RES
from .common import COMPONENTS, ASSUMPTIONS, rng, site_from_detail  # noqa: F401

ID = "C05"
LEVEL = "exploration"
MINIMISE_S = 6.0
RULES = {
    "ALT": "per (listener, service instance, source): notifications alternate offered, stopped, ... starting with offered",
    "TRUTH": "at every idle point, for registered listeners: latest=='offered' only if a live offer can exist; a live offer that arrived while the listener was registered implies latest=='offered'; every explicit removal has been reported",
    "REBOOT-ORDER": "after a message with reboot evidence, no 'offered' from that source is reported while something learnt before is still standing as offered",
    "FILTER": "no notification for a service the listener's filter rejects",
}
RULE_TEXT = (
    "sweep: i-th run = i-th history over a 21-symbol alphabet (offers ttl 1/2/inf, stop-offer, reboot+offer/find, connection loss, "
    "watch/unwatch/watch-all, same-instant, deadline-aligned advances, busy period across a deadline) after 'start; watch'; "
    "random: histories of 5-40 symbols over 3 peers x 4 services x 5 filters x both channels. non-trivial = at least one listener "
    "callback and one TRUTH evaluation happened; distinct = distinct interleaving signature (ordered (actor, kind, shape) of all events)"
)
PROBES = [
    "offer_and_deadline_in_one_epoch",
    "reboot_evidence_with_offer_in_one_message",
    "watch_in_epoch_with_rx",
    "unwatched_offer",
    "expiry_on_time",
]
HASHSEEDS = [1, 2]

S1, S2 = 0x1111, 0x2222
X, Y, Z, W = (S1, 1, 1, 0), (S1, 2, 1, 0), (S2, 1, 1, 5), (S1, 1, 2, 0)
KEYS = [X, Y, Z, W]
FILTERS = [[S1, 0xFFFF, 0xFF, 0xFFFFFFFF], [S1, 1, 1, 0xFFFFFFFF], [S2, 0xFFFF, 1, 5], [S1, 2, 0xFF, 0]]
INF_TTL = 0xFFFFFF
NSYM = 21
SWEEP_LEN = {"quick": 3, "thorough": 4}
RANDOM_RUNS = {"quick": 60000, "thorough": 3000000}


def sweep_count(L):
    return sum(NSYM**k for k in range(1, L + 1))


def budget(tier):
    return sweep_count(SWEEP_LEN[tier]) + RANDOM_RUNS[tier], {"quick": 120, "thorough": 1500}[tier]


def EXHAUSTIVE(tier, complete):
    return {"alphabet": NSYM, "max_length": SWEEP_LEN[tier], "histories": sweep_count(SWEEP_LEN[tier]), "completed": complete}


class Builder:
    """interprets symbols into timed ops"""

    GAP = 0.05

    def __init__(self, cfg_extra=None):
        self.ops = [{"k": "call", "t": 0.0, "f": "start"}, {"k": "call", "t": 0.0, "f": "watch", "a": [0, "L0"]}]
        self.t = 0.1
        self.deadlines = []
        self.nl = 1
        self.flisteners = [(0, "L0")]
        self.alisteners = []
        self.same = False
        self.last_t = None
        self.phase = "io"

    def _now(self):
        """instant of the op being emitted ('same' glues it to the previous op)"""
        if self.same and self.last_t is not None:
            self.t = self.last_t
        self.same = False
        return self.t

    def _adv(self):
        self.last_t = self.t
        self.t = round(self.t + self.GAP, 9)

    def offer(self, p, key, ttl, ch="m", extra=None):
        e = [["offer", key[0], key[1], key[2], key[3], ttl]]
        if extra:
            e += extra
        self._now()
        self.ops.append({"k": "sd", "t": self.t, "p": p, "ch": ch, "e": e})
        if ttl not in (0, INF_TTL):
            self.deadlines.append(self.t + ttl)
        self._adv()

    def find(self, p, ch="m"):
        self._now()
        self.ops.append({"k": "sd", "t": self.t, "p": p, "ch": ch, "e": [["find", 0x7777, 0xFFFF, 0xFF, 0xFFFFFFFF, 3]]})
        self._adv()

    def preboot(self, p):
        self._now()
        self.same = False
        self.ops.append({"k": "preboot", "t": self.t, "p": p})

    def call(self, f, a=()):
        self._now()
        op = {"k": "call", "t": self.t, "f": f, "a": list(a)}
        if self.phase != "io":
            op["ph"] = self.phase
        self.ops.append(op)
        self._adv()

    def next_deadline(self):
        later = [d for d in self.deadlines if d > self.t - 1e-9]
        return min(later) if later else None

    def to_deadline(self, off):
        d = self.next_deadline()
        if d is None:
            self.t = round(self.t + 0.3, 9)
        else:
            self.t = d + off
        self.same = False

    def busy_over_deadline(self):
        d = self.next_deadline()
        if d is None:
            self.t = round(self.t + 0.3, 9)
            return
        self.ops.append({"k": "busy", "t": d - 0.001, "d": 0.002})
        self.t = d + 0.0005

    def symbol(self, s):
        if s == 0:
            self.offer(0, X, 1)
        elif s == 1:
            self.offer(0, X, 2)
        elif s == 2:
            self.offer(0, X, INF_TTL)
        elif s == 3:
            self.offer(0, Y, 1)
        elif s == 4:
            self.offer(1, X, 1)
        elif s == 5:
            self.offer(0, X, 0)
        elif s == 6:
            self.preboot(0)
            self.offer(0, X, 1)
        elif s == 7:
            self.preboot(0)
            self.find(0)
        elif s == 8:
            self.preboot(0)
            self.offer(0, Y, 1)
        elif s == 9:
            self.call("conn_lost")
        elif s == 10:
            name = f"L{self.nl}"
            self.nl += 1
            self.flisteners.append((0, name))
            self.call("watch", [0, name])
        elif s == 11:
            if self.flisteners:
                fi, name = self.flisteners.pop(0)
                self.call("unwatch", [fi, name])
        elif s == 12:
            name = f"A{self.nl}"
            self.nl += 1
            self.alisteners.append(name)
            self.call("watch_all", [name])
        elif s == 13:
            if self.alisteners:
                self.call("unwatch_all", [self.alisteners.pop(0)])
        elif s == 14:
            self.t = round(self.t + 0.3, 9)
        elif s == 15:
            self.to_deadline(-1e-4)
        elif s == 16:
            self.to_deadline(0.0)
        elif s == 17:
            self.to_deadline(1e-4)
        elif s == 18:
            self.to_deadline(-RES / 4)
        elif s == 19:
            self.busy_over_deadline()
        elif s == 20:
            # the next symbol happens at the same instant as the previous one
            self.same = True

    def plan(self, seed, cls, cfg=None):
        c = {"filters": FILTERS, "timings": {"INITIAL_DELAY_MIN": 0.0, "INITIAL_DELAY_MAX": 0.0, "REPETITIONS_MAX": 0}}
        if cfg:
            c.update(cfg)
        until = max([self.t] + self.deadlines) + 1.0
        return {"engine": "single", "property": ID, "class": cls, "seed": seed, "cfg": c, "ops": self.ops, "until": round(until, 6)}


def sweep_plan(i):
    L = 1
    while i >= NSYM**L:
        i -= NSYM**L
        L += 1
    syms = []
    for _ in range(L):
        syms.append(i % NSYM)
        i //= NSYM
    b = Builder()
    for s in syms:
        b.symbol(s)
    p = b.plan(0, "sweep")
    p["symbols"] = syms
    return p


def random_plan(seed, idx):
    r = rng(seed, ID, idx)
    b = Builder()
    n = r.randint(5, 40)
    peers_used = set()
    for _ in range(n):
        # time step
        u = r.random()
        if u < 0.25:
            b.same = True
        elif u < 0.35:
            b.t = round(b.t + 1e-4, 9)
        elif u < 0.70:
            b.t = round(b.t + r.uniform(0, 1.5), 6)
        elif u < 0.95:
            b.to_deadline(r.choice([-1e-4, -RES / 4, 0.0, RES / 4, 1e-4]))
        else:
            b.busy_over_deadline()
        b.phase = r.choice(["io", "io", "io", "timer", "late"])
        k = r.random()
        p = r.randrange(3)
        key = r.choice(KEYS)
        ch = r.choice("mmu")
        if k < 0.40:
            ttl = r.choice([1, 1, 2, 3, INF_TTL])
            extra = None
            if r.random() < 0.15:
                k2 = r.choice(KEYS)
                extra = [["offer", k2[0], k2[1], k2[2], k2[3], r.choice([0, 1, 2, INF_TTL])]]
            b.offer(p, key, ttl, ch, extra)
            peers_used.add(p)
        elif k < 0.50:
            b.offer(p, key, 0, ch)
        elif k < 0.65:
            b.preboot(p)
            w = r.random()
            if w < 0.6:
                b.offer(p, key, r.choice([1, 2, 3, INF_TTL]), ch)
            elif w < 0.8:
                b.find(p, ch)
            else:
                b.offer(p, r.choice(KEYS), 1, ch)
        elif k < 0.67:
            b.call("conn_lost")
        elif k < 0.80:
            fi = r.randrange(len(FILTERS))
            name = f"L{b.nl}"
            b.nl += 1
            b.flisteners.append((fi, name))
            b.call("watch", [fi, name])
        elif k < 0.88:
            if b.flisteners:
                fi, name = b.flisteners.pop(r.randrange(len(b.flisteners)))
                b.call("unwatch", [fi, name])
        elif k < 0.94:
            name = f"A{b.nl}"
            b.nl += 1
            b.alisteners.append(name)
            b.call("watch_all", [name])
        else:
            if b.alisteners:
                b.call("unwatch_all", [b.alisteners.pop(0)])
    return b.plan(seed, "random", {"sock_flip": r.choice([0, 0.5, 1.0])})


def gen(seed, idx, tier):
    ns = sweep_count(SWEEP_LEN[tier])
    if idx < ns:
        return sweep_plan(idx)
    return random_plan(seed, idx - ns)


MY_RULES = set(RULES)


def check(plan, res):
    o = DiscoveryOracle(plan["cfg"]["filters"]).walk(res.log)
    foreign = bool(res.loop_exc or res.swallowed or res.op_exc)
    v = [(r, d) for r, d in o.violations if r in MY_RULES]
    if res.stats.get("multi_socket_iteration"):
        o.probe("two_sockets_one_iteration", res.stats["multi_socket_iteration"])
    return {
        "violations": v,
        "nontrivial": o.ncb > 0 and o.ntruth > 0,
        "probes": o.probes,
        "states": o.states,
        "foreign": foreign,
    }


site = site_from_detail
