"""C18 — stream and datagram framing agree under arbitrary segmentation."""
from sim import refdec
from sim.lib import header, sd
from .common import COMPONENTS, ASSUMPTIONS, rng  # noqa: F401

ID = "C18"
LEVEL = "fault_enumeration"
MINIMISE_S = 5.0
RULES = {
    "EQUIV": "the messages read from the stream are exactly the messages datagram decoding (SOMEIPHeader.parse in a loop, cross-checked by the independent reference decoder and by what SOMEIPDatagramProtocol.datagram_received dispatches for the same bytes) yields from the concatenated bytes, in order, whatever the chunking",
    "REJECT-POSITION": "a header that datagram decoding rejects is rejected by the stream reader with the library's ParseError at the same message index",
    "EOF-INCOMPLETE": "a stream that ends inside a message produces an incomplete-read error after exactly the complete messages before it - never a shortened message",
    "RESET-PROPAGATES": "after a connection reset the reader has delivered a prefix of the messages and, if it raises, raises that reset (never a shortened message, never another error)",
}
RULE_TEXT = (
    "fault enumeration for short streams: every single cut position and every pair of cut positions of streams up to 64 bytes, and the "
    "stream cut short (EOF, reset) at every byte position; random beyond: 0-8 messages with payload lengths 0..4096 (boundary-biased), "
    "random cuts incl. all-1-byte chunking, one corrupted header field (protocol version, message type, return code, length < 8), EOF "
    "inside header / payload, reset, both SOMEIPHeader.read and the SOMEIPReader wrapper; a quarter of the random plans run one or two more "
    "connections in the same process (abandoned before, or interleaved with, the judged one), each judged against its own bytes. non-trivial = at least one chunk boundary or "
    "the stream end fell inside a message; distinct = distinct (stream, cut set, ending)"
)
PROBES = ["payload_in_1000_pieces", "other_connections", "cut_inside_header", "cut_inside_payload", "eof_inside_header", "eof_inside_payload", "rejected_header", "one_byte_chunks", "reset"]
RUNS = {"quick": 30000, "thorough": 2000000}


def budget(tier):
    return nsweep() + RUNS[tier], {"quick": 150, "thorough": 1800}[tier]


def msg(r, plen=None, **kw):
    n = r.choice([0, 0, 1, 2, 7, 8, 9, 15, 16, 17, 255, 256, 4095, 4096]) if plen is None else plen
    f = dict(service=r.choice([0, 1, 0x1234, 0xFFFF]), method=r.choice([0, 1, 0x8001, 0xFFFF]), client=r.randint(0, 0xFFFF), session=r.randint(0, 0xFFFF),
             iface=r.choice([0, 1, 0xFF]), mtype=r.choice(sorted(refdec.MSG_TYPES)), rc=r.choice(sorted(refdec.RET_CODES)))
    f.update(kw)
    payload = bytes(r.getrandbits(8) for _ in range(min(n, 32))) + bytes(max(0, n - 32))
    return refdec.enc_someip(f["service"], f["method"], f["client"], f["session"], f["iface"], f["mtype"], f["rc"], payload, f.get("proto", 1), f.get("length"))


# ---- sweep streams (short): fixed, seed-independent
def sweep_streams():
    import random

    r = random.Random("c18-sweep")
    A = msg(r, 0)
    B = msg(r, 5)
    C = msg(r, 1)
    bad_ver = msg(r, 3, proto=2)
    bad_type = msg(r, 3, mtype=3)
    bad_rc = msg(r, 3, rc=0x20)
    bad_len = msg(r, 0, length=7)
    return [A + B, B + A + C, A + A + A, B + bad_ver + A, A + bad_type, bad_rc + A, A + bad_len + B, b"", C]


_SWEEP = None


def sweep_cases():
    global _SWEEP
    if _SWEEP is None:
        cases = []
        for si, s in enumerate(sweep_streams()):
            n = len(s)
            for end in ("eof", "reset"):
                cases.append((si, (), end, None))
                for a in range(1, n):
                    cases.append((si, (a,), end, None))
            for a in range(1, n):
                for b in range(a + 1, n):
                    cases.append((si, (a, b), "eof", None))
            # stream cut short at every position (EOF / reset there), delivered in one or two pieces
            for cutoff in range(0, n):
                for end in ("eof", "reset"):
                    cases.append((si, (), end, cutoff))
                    if cutoff > 1:
                        cases.append((si, (cutoff // 2,), end, cutoff))
        _SWEEP = cases
    return _SWEEP


def nsweep():
    return len(sweep_cases())


def EXHAUSTIVE(tier, complete):
    return {"streams": len(sweep_streams()), "cases": nsweep(), "what": "all single cuts, all pairs of cuts, EOF and reset at every byte position", "completed": complete}


def gen(seed, idx, tier):
    if idx < nsweep():
        si, cuts, end, cutoff = sweep_cases()[idx]
        s = sweep_streams()[si]
        if cutoff is not None:
            s = s[:cutoff]
        return {"engine": "stream", "property": ID, "class": "sweep", "seed": 0, "cfg": {"wrapper": idx % 2 == 1}, "hex": s.hex(), "cuts": list(cuts), "gap": 0.001, "end": end}
    r = rng(seed, ID, idx)
    n = r.randint(0, 8)
    parts = []
    bad_at = r.randrange(n) if n and r.random() < 0.3 else None
    for i in range(n):
        if i == bad_at:
            kind = r.choice(["proto", "mtype", "rc", "length"])
            kw = {"proto": r.choice([0, 2, 0xFF])} if kind == "proto" else {"mtype": r.choice([3, 0x7F, 0xFF, 0x20, 0x21, 0x22, 0x60, 0xA0, 0xE1, 0x82, 0x43])} if kind == "mtype" else {"rc": r.choice([0x0B, 0x20, 0xFF])} if kind == "rc" else {"length": r.randint(0, 7)}
            parts.append(msg(r, **kw))
        else:
            parts.append(msg(r))
    s = b"".join(parts)
    end = r.choice(["eof", "eof", "reset", "open"])
    if r.random() < 0.3 and len(s) > 1:
        s = s[: r.randrange(0, len(s))]
    u = r.random()
    if u < 0.15 and len(s) <= 600:
        cuts = list(range(1, len(s)))
    elif u < 0.18 and len(s) <= 9000:
        # a long stream in pieces of 1-3 bytes: a payload arrives in more than a thousand pieces
        step = r.choice([1, 1, 2, 3])
        cuts = list(range(step, len(s), step))
    elif u < 0.5:
        cuts = sorted(r.sample(range(1, max(2, len(s))), min(max(0, len(s) - 1), r.randint(0, 12)))) if len(s) > 2 else []
    else:
        # cuts near message / header boundaries
        cuts = []
        pos = 0
        for p in parts:
            for off in (r.choice([1, 4, 8, 15, 16, 17]), len(p) - r.choice([0, 1])):
                if 0 < pos + off < len(s) and r.random() < 0.6:
                    cuts.append(pos + off)
            pos += len(p)
    plan = {"engine": "stream", "property": ID, "class": "random", "seed": seed, "cfg": {"wrapper": r.random() < 0.4}, "hex": s.hex(), "cuts": cuts, "gap": r.choice([0.0, 0.001, 0.5]), "end": end}
    if r.random() < 0.25:
        # the process serves more than one connection: one that was used up or abandoned (cut inside a message, or
        # ended by a rejected header) before this one starts, and / or one whose chunks interleave with this one's
        others = []
        for _ in range(r.randint(1, 2)):
            osrc = b"".join(msg(r) for _ in range(r.randint(1, 3)))
            if r.random() < 0.3:
                osrc = osrc[:16] + msg(r, proto=2) + osrc[16:]
            if r.random() < 0.5 and len(osrc) > 1:
                osrc = osrc[: r.randrange(1, len(osrc))]
            ocuts = sorted(r.sample(range(1, max(2, len(osrc))), min(max(0, len(osrc) - 1), r.randint(0, 6)))) if len(osrc) > 2 else []
            before = r.random() < 0.5
            others.append({"hex": osrc.hex(), "cuts": ocuts, "gap": plan["gap"] if not before else 0.001, "end": r.choice(["eof", "open", "open"]), "wrapper": r.random() < 0.6, "t0": 0.0 if before else r.choice([0.0, plan["gap"] / 2])})
            if before:
                plan["t0"] = max(plan.get("t0", 0.0), (len(ocuts) + 3) * 0.001 + 0.01)
        plan["others"] = others
        plan["class"] = "random-multi"
    return plan


def datagram_view(data):
    """what datagram decoding yields: (messages, how it stops: 'end' | 'incomplete' | 'reject')"""
    msgs = []
    buf = data
    while buf:
        try:
            m, buf = header.SOMEIPHeader.parse(buf)
        except header.IncompleteReadError:
            return msgs, "incomplete"
        except header.ParseError:
            return msgs, "reject"
        msgs.append((m.service_id, m.method_id, m.client_id, m.session_id, m.protocol_version, m.interface_version, int(m.message_type), int(m.return_code), bytes(m.payload)))
    return msgs, "end"


class _Recorder(sd.SOMEIPDatagramProtocol):
    def __init__(self):
        super().__init__()
        self.got = []

    def message_received(self, m, addr, multicast):
        self.got.append((m.service_id, m.method_id, m.client_id, m.session_id, m.protocol_version, m.interface_version, int(m.message_type), int(m.return_code), bytes(m.payload)))


def protocol_view(data):
    """what the library's datagram protocol hands to message_received for a datagram with these bytes"""
    rec = _Recorder()
    try:
        rec.datagram_received(data, ("10.0.0.9", 30509), False)
    except Exception as exc:  # noqa: B902
        return rec.got, type(exc).__name__
    return rec.got, None


def ref_view(data):
    msgs = []
    buf = data
    while buf:
        try:
            m, buf = refdec.dec_someip(buf)
        except refdec.RefError as e:
            why = str(e)
            return msgs, "incomplete" if why in ("short header", "truncated payload") else "reject"
        msgs.append((m.service, m.method, m.client, m.session, m.proto, m.iface, m.mtype, m.rc, m.payload))
    return msgs, "end"


def check(plan, res):
    data = res.data
    viol = []
    probes = {}
    lib_msgs, lib_stop = datagram_view(data)
    ref_msgs, ref_stop = ref_view(data)
    reads = [e[5] for e in res.log if e[4] == "read" and e[3] == "R"]
    errs = [e[5] for e in res.log if e[4] == "read-error" and e[3] == "R"]
    # other connections of the same process: each must see its own bytes only
    for k, o in enumerate(plan.get("others", [])):
        actor = f"R{k + 2}"
        oreads = [e[5] for e in res.log if e[4] == "read" and e[3] == actor]
        owant, _ = ref_view(bytes.fromhex(o["hex"]))
        if oreads != owant[: len(oreads)]:
            viol.append(("EQUIV", {"msg": f"connection {actor} read {len(oreads)} messages that are not a prefix of its own stream's {len(owant)}", "context": "other-connection"}))
        probes["other_connections"] = probes.get("other_connections", 0) + 1
    end = plan.get("end", "eof")
    # the reference decoder and the library's datagram decoder must agree in the first place (C01/C03 territory; reported here as EQUIV)
    if (lib_msgs, lib_stop) != (ref_msgs, ref_stop):
        viol.append(("EQUIV", {"msg": f"datagram decoding yields {len(lib_msgs)} messages / {lib_stop}, the reference decoder {len(ref_msgs)} / {ref_stop}", "context": "datagram-vs-reference"}))
    if len(data) <= 65507:
        # the datagram endpoint's own loop (SOMEIPDatagramProtocol.datagram_received): the same messages, front to back
        prot_msgs, prot_exc = protocol_view(data)
        if prot_exc is not None:
            viol.append(("EQUIV", {"msg": f"datagram_received raised {prot_exc} after {len(prot_msgs)} messages", "context": "datagram-protocol-raised"}))
        elif prot_msgs != lib_msgs:
            viol.append(("EQUIV", {"msg": f"the datagram protocol dispatched {len(prot_msgs)} messages, datagram decoding yields {len(lib_msgs)} / {lib_stop}", "context": "datagram-protocol-vs-parse"}))
    want = ref_msgs
    if reads != want[: len(reads)] or len(reads) > len(want):
        k = next((i for i, (a, b) in enumerate(zip(reads, want)) if a != b), min(len(reads), len(want)))
        short = k < len(reads) and k < len(want) and len(reads[k][8]) < len(want[k][8])
        viol.append(("EOF-INCOMPLETE" if short else "EQUIV", {"msg": f"message #{k} read from the stream differs from datagram decoding ({'shortened payload' if short else 'different content or extra message'})", "context": "shortened" if short else "content"}))
    elif len(reads) < len(want) and end == "reset" and (not errs or errs[0][0].endswith("ConnectionResetError")):
        # asyncio's StreamReader discards what it buffered once a reset is signalled (and a reader already
        # waiting for more bytes of a message may wait on): the messages consumed before are a prefix, fine
        probes["reset"] = 1
    elif len(reads) < len(want):
        viol.append(("EQUIV", {"msg": f"stream reader delivered {len(reads)} of {len(want)} messages (stopped with {errs[0][0] if errs else 'nothing'})", "context": "missing-messages"}))
    else:
        # all complete messages delivered; how did it stop?
        err = errs[0] if errs else None
        if ref_stop == "reject":
            probes["rejected_header"] = 1
            if err is None or not err[0].endswith("ParseError") or "someip" not in err[0]:
                viol.append(("REJECT-POSITION", {"msg": f"datagram decoding rejects message #{len(want)}; the stream reader answered {err and err[0]}", "context": "not-rejected" if err is None else "other-error"}))
        elif end == "eof":
            if err is None or "IncompleteReadError" not in err[0]:
                viol.append(("EOF-INCOMPLETE", {"msg": f"stream ended ({ref_stop}) after {len(want)} messages; the reader answered {err and err[0]} instead of an incomplete-read error", "context": "no-incomplete-read"}))
        elif end == "reset":
            probes["reset"] = 1
            # (err is None: CPython's readexactly() re-checks the stored exception only on entry; a reader that
            # was woken by a partial chunk in the instant of the reset waits on - not the library's doing)
            if err is not None and not err[0].endswith("ConnectionResetError"):
                viol.append(("RESET-PROPAGATES", {"msg": f"reset after {len(want)} messages; the reader answered {err and err[0]}", "context": "reset-lost"}))
        else:
            if err is not None:
                viol.append(("EQUIV", {"msg": f"stream still open, reader raised {err[0]}", "context": "error-on-open-stream"}))
    if len(plan.get("cuts", [])) > 1000:
        probes["payload_in_1000_pieces"] = 1
    # coverage probes
    bounds = []
    pos = 0
    for m in ref_msgs:
        bounds.append((pos, pos + 16, pos + 16 + len(m[8])))
        pos += 16 + len(m[8])
    cuts = plan.get("cuts", [])
    for c in cuts:
        for a, h, b in bounds:
            if a < c < h:
                probes["cut_inside_header"] = probes.get("cut_inside_header", 0) + 1
            elif h < c < b:
                probes["cut_inside_payload"] = probes.get("cut_inside_payload", 0) + 1
    tail = len(data) - pos
    if end == "eof" and ref_stop == "incomplete":
        probes["eof_inside_header" if tail < 16 else "eof_inside_payload"] = 1
    if len(cuts) >= len(data) - 1 and len(data) > 2:
        probes["one_byte_chunks"] = 1
    nontrivial = bool(probes.get("cut_inside_header") or probes.get("cut_inside_payload") or ref_stop != "end")
    foreign = bool(res.loop_exc)
    return {"violations": viol, "nontrivial": nontrivial, "probes": probes, "states": {hash((len(ref_msgs), ref_stop, end, len(cuts) > 0)) & 0xFFFFFFFFFFFF}, "foreign": foreign}


def site(rule, plan, detail):
    return detail.get("context", "general")
