"""C03 — malformed or foreign input is rejected cleanly and changes nothing."""
import sys

from sim import core, pair, refdec, single
from sim.lib import header
from .common import COMPONENTS, ASSUMPTIONS, rng  # noqa: F401

ID = "C03"
LEVEL = "exploration"
MINIMISE_S = 10.0
RULES = {
    "DECODER-OUTCOME": "every decoder, on every injected byte string, terminates with (value, true suffix of the input), the library's ParseError, or - only when the reference decoder reaches a non-ASCII byte inside a configuration string - UnicodeDecodeError; its accept / reject verdict equals the reference decoder's",
    "RECEIVE-NO-RAISE": "no exception escapes the receive path of a discovery endpoint or a service endpoint, whatever the datagram",
    "TWIN-EQUAL": "when every injected message is not a decodable SD notification (wrong service / method / interface version / message type / return code, or undecodable payload), the run has the same listener callbacks, transmissions (bytes, destination, instant) and final discovery / subscription / session state as the twin run without the injections; a valid prefix followed by garbage behaves like the prefix alone",
    "UNICAST-FLAG": "an SD message whose unicast flag is clear, from a fresh address, changes nothing but that address' session record",
}
RULE_TEXT = (
    "class twin: a live two-node scenario (offerer + auto-subscribing watcher, collectors and TTL timers running) receives 1-8 injected "
    "datagrams per run - corrupted copies of valid SD / SOME/IP messages (bit flips, byte replacement, truncation, insertion, region "
    "duplication, rewritten length / count / index fields, corrupted option payloads incl. non-ASCII configuration strings), foreign "
    "SOME/IP messages, arbitrary bytes of length 0..2048 - from known and unknown senders on both channels, also exactly at timer "
    "deadlines (a few runs add a crowd of 250-700 further senders with valid messages); the run is executed again without what must be rejected (decodable SD messages stay) and compared. class svc: the same corpus at a SimpleService endpoint and its SD "
    "endpoint. Every injected byte string also goes through the four decoders directly. non-trivial = at least one injected datagram was "
    "rejected by the stack; distinct = interleaving signature"
)
PROBES = ["injected", "rejected_someip", "rejected_sd_header", "rejected_sd_payload", "unicode_in_config", "decodable_sd_injected", "twin_compared", "valid_prefix_plus_garbage", "unicast_flag_clear"]
RUNS = {"quick": 6000, "thorough": 600000}
T = {"INITIAL_DELAY_MIN": 0, "INITIAL_DELAY_MAX": 0.1, "REPETITIONS_MAX": 1, "REPETITIONS_BASE_DELAY": 0.05, "CYCLIC_OFFER_DELAY": 1, "ANNOUNCE_TTL": 3,
     "SUBSCRIBE_TTL": 3, "SUBSCRIBE_REFRESH_INTERVAL": 1, "FIND_TTL": 3, "SEND_COLLECTION_TIMEOUT": 0.005}


def budget(tier):
    return RUNS[tier], {"quick": 200, "thorough": 2400}[tier]


# ------------------------------------------------------------------ corpus
def valid_messages(r):
    cfgopt = ("cfg", (("key", "value"), ("flag", None), ("a", "b=c")))
    out = [
        refdec.enc_sd_message([refdec.offer(0x1111, 1, 1, 0, 3, [refdec.ep4("10.0.0.9", 30500)])], r.randint(1, 0xFFFF), reboot=r.random() < 0.5),
        refdec.enc_sd_message([refdec.offer(0x1111, 1, 1, 0, 0)], r.randint(1, 0xFFFF)),
        refdec.enc_sd_message([refdec.find(0x1111), refdec.find(0x2222, 1, 1, 0)], r.randint(1, 0xFFFF)),
        refdec.enc_sd_message([refdec.subscribe(0x1111, 1, 1, 1, 3, 0, [refdec.ep4("10.0.0.9", 4000)], [cfgopt])], r.randint(1, 0xFFFF)),
        refdec.enc_sd_message([refdec.offer(0x2222, 7, 1, 0, 5, [refdec.ep6("fd00::9", 30500), ("lb", 1, 2)], [cfgopt, ("unk", 0x77, b"\x01\x02")])], 1),
        refdec.enc_sd_message([refdec.subscribe(0x1111, 1, 1, 1, 0, 3, [refdec.ep4("10.0.0.9", 4000)])._replace(type=refdec.SUBACK)], 9),
        refdec.enc_someip(0x4321, 1, 7, 9, 1, 0, 0, b"\x01\x02\x03"),
        refdec.enc_someip(0x4321, 0x8001, 0, 3, 1, 2, 0, b"\xaa"),
    ]
    return out


def corrupt(r, b):
    b = bytearray(b)
    k = r.random()
    if not b:
        return bytes(b)
    if k < 0.15:
        i = r.randrange(len(b))
        b[i] ^= 1 << r.randrange(8)
    elif k < 0.30:
        b[r.randrange(len(b))] = r.choice([0, 1, 0x7F, 0x80, 0xFF, r.randrange(256)])
    elif k < 0.42:
        del b[r.randrange(len(b)) :]
    elif k < 0.52:
        i = r.randrange(len(b) + 1)
        b[i:i] = bytes(r.getrandbits(8) for _ in range(r.choice([1, 2, 4, 16])))
    elif k < 0.60:
        i = r.randrange(len(b))
        j = min(len(b), i + r.choice([1, 4, 16]))
        b[j:j] = b[i:j]
    elif k < 0.85 and len(b) >= 28:
        # a length / count / index field: SOME/IP length (4..8), entries length (24..28), first entry's index/count bytes (29..32), options length, option length
        field = r.choice(["len", "elen", "idx", "olen", "optlen", "type", "rc", "proto", "flags"])
        v = r.choice([0, 1, 7, 8, 15, 16, 17, 0xFF, 0xFFFF, 0xFFFFFFFF])
        if field == "len":
            b[4:8] = (v & 0xFFFFFFFF).to_bytes(4, "big")
        elif field == "elen":
            b[24:28] = (v & 0xFFFFFFFF).to_bytes(4, "big")
        elif field == "idx" and len(b) > 32:
            b[29 + r.randrange(3)] = v & 0xFF
        elif field == "olen" and len(b) > 48:
            elen = int.from_bytes(b[24:28], "big")
            p = 28 + elen
            if p + 4 <= len(b):
                b[p : p + 4] = (v & 0xFFFFFFFF).to_bytes(4, "big")
        elif field == "optlen" and len(b) > 52:
            elen = int.from_bytes(b[24:28], "big")
            p = 32 + elen
            if p + 2 <= len(b):
                b[p : p + 2] = (v & 0xFFFF).to_bytes(2, "big")
        elif field == "type":
            b[14] = r.choice([3, 0x7F, 0xFF, 0, 0x80])
        elif field == "rc":
            b[15] = r.choice([1, 0x0B, 0xFF])
        elif field == "proto":
            b[12] = r.choice([0, 2, 0xFF])
        else:
            b[16] = r.choice([0x00, 0x80, 0xC1, 0xFF, 0x40])
    else:
        # non-ASCII byte inside what may be a configuration string
        i = b.find(b"key")
        if i < 0:
            i = r.randrange(len(b))
        b[i + r.randrange(3) if i + 3 <= len(b) else i] = r.choice([0x80, 0xC3, 0xFF])
    return bytes(b)


def make_injection(r):
    k = r.random()
    base = r.choice(valid_messages(r))
    if k < 0.55:
        d = corrupt(r, base)
        if r.random() < 0.3:
            d = corrupt(r, d)
        return d, "corrupt"
    if k < 0.65:
        return bytes(r.getrandbits(8) for _ in range(r.choice([0, 1, 15, 16, 17, 64, 2048]))), "random"
    if k < 0.78:
        # foreign: a well-formed SOME/IP message that is not an SD notification
        payload = base[16:]
        v = r.choice(["svc", "method", "iface", "type", "rc"])
        f = dict(service=0xFFFF, method=0x8100, iface=1, mtype=2, rc=0)
        f.update({"svc": {"service": 0xFFFE}, "method": {"method": 0x8101}, "iface": {"iface": 2}, "type": {"mtype": 0x80}, "rc": {"rc": 1}}[v])
        return refdec.enc_someip(f["service"], f["method"], 0, r.randint(1, 0xFFFF), f["iface"], f["mtype"], f["rc"], payload), "foreign"
    if k < 0.88:
        # valid SD message followed by garbage (not decodable as a SOME/IP message)
        good = refdec.enc_sd_message([refdec.find(0x7777)], r.randint(1, 0xFFFF))
        return good + r.choice([b"\x00", b"\xff" * 7, corrupt(r, base)[:15]]), "prefix+garbage"
    if k < 0.91:
        # a harmless SD message followed, in the same datagram, by a message with a foreign service / method id whose
        # header otherwise looks like SD (interface 1, NOTIFICATION, E_OK) and whose payload is a decodable SD payload
        good = refdec.enc_sd_message([refdec.find(0x7777)], r.randint(1, 0xFFFF))
        inner = refdec.enc_sd_message([refdec.offer(0x1111, 9, 1, 0, 3, [refdec.ep4("10.0.0.9", 30500)]), refdec.subscribe(0x1111, 1, 1, 1, 3, 0, [refdec.ep4("10.0.0.9", 4000)])], r.randint(1, 0xFFFF))[16:]
        svc, meth = r.choice([(0x1234, 0x8100), (0xFFFF, 0x8101), (0xFFFE, 0x8100), (0x4321, 1)])
        return good + refdec.enc_someip(svc, meth, 0, r.randint(1, 0xFFFF), 1, 2, 0, inner), "sd+foreign"
    if k < 0.95:
        return refdec.enc_sd_message([refdec.offer(0x1111, 1, 1, 0, 3), refdec.subscribe(0x1111, 1, 1, 1, 3, 0, [refdec.ep4("10.0.0.9", 4000)])], r.randint(1, 0xFFFF), unicast=False), "unicast-flag-clear"
    return base, "valid"


HARMLESS_KINDS = ("sd+foreign", "prefix+garbage", "crowd")


def verdict(data):
    """reference classification of one datagram for a discovery endpoint:
    list of per-message classes, plus whether anything in it may legitimately change state"""
    msgs, err = refdec.split_datagram(data)
    classes = [refdec.classify(m)[0] for m in msgs]
    return msgs, classes, err


# ------------------------------------------------------------------ plans
def gen(seed, idx, tier):
    r = rng(seed, ID, idx)
    if idx % 4 == 3:
        return gen_svc(seed, idx, r)
    nodes = {"A": {"role": "offerer", "timings": dict(T)}, "B": {"role": "watcher", "timings": dict(T), "second_watch": r.random() < 0.5}}
    lat = r.choice([0.001, 0.005])
    cfg = {"nodes": nodes, "net": {"latency": lat, "jitter": 0.0, "windows": [], "partitions": []}, "mc_loop": r.random() < 0.3}
    ops = []
    kinds = []
    for j in range(r.randint(1, 8)):
        data, kind = make_injection(r)
        kinds.append(kind)
        u = r.random()
        if u < 0.3:
            t = round(r.choice([1.0, 2.0, 3.0, 1.05, 2.1]) + r.choice([0.0, 3e-8]), 9)  # timer deadlines of the scenario
        else:
            t = round(r.uniform(0.05, 5.0), 6) + 3e-8  # never the arrival instant of a scenario datagram
        src = r.choice([["10.0.0.1", 30490], ["10.0.0.2", 30490], ["10.0.0.66", 30490], ["10.0.0.66", 1234]]) if kind != "unicast-flag-clear" else ["10.0.0.77", 30490]
        if kind in HARMLESS_KINDS and r.random() < 0.7:
            src = r.choice([["10.0.0.66", 30490], ["10.0.0.66", 1234]])
        ops.append({"k": "inject", "t": t, "to": r.choice("AB"), "ch": r.choice("um"), "src": src, "hex": data.hex(), "kind": kind})
    if r.random() < 0.2:
        # a fresh sender: a valid Offer, its StopOffer, then the very same Offer bytes with only the unicast flag cleared
        src = ["10.0.0.78", 30490]
        t0 = round(r.uniform(0.3, 3.0), 6) + 3e-8
        key = r.choice([(0x1111, 9, 1, 0), (0x1111, 1, 1, 0)])
        o1 = refdec.enc_sd_message([refdec.offer(*key, 3)], 5, reboot=True)
        o0 = refdec.enc_sd_message([refdec.offer(*key, 0)], 6, reboot=True)
        o3 = refdec.enc_sd_message([refdec.offer(*key, 3)], 7, reboot=True, unicast=False)
        to, ch = r.choice("AB"), r.choice("um")
        for dt, data, kind in ((0.0, o1, "valid"), (0.2, o0, "valid"), (0.4, o3, "unicast-flag-clear")):
            ops.append({"k": "inject", "t": round(t0 + dt, 9), "to": to, "ch": ch, "src": src, "hex": data.hex(), "kind": kind})
    if r.random() < 0.3:
        ops.append({"k": "node", "t": round(r.uniform(1.0, 4.0), 6), "n": r.choice("AB"), "f": r.choice(["stop", "crash"])})
    cls = "twin"
    if r.random() < 0.03:
        # a crowd: valid SD messages from several hundred distinct senders (hosts and ports) reach one endpoint
        cls = "twin-crowd"
        to = r.choice("AB")
        t0 = round(r.uniform(0.2, 2.0), 6) + 3e-8
        n = r.choice([250, 257, 300, 520, 700])
        for j in range(n):
            src = [f"10.{1 + j // 250}.{j % 5}.{1 + j % 250}", r.choice([30490, 30490, 40000 + j])]
            data = refdec.enc_sd_message([refdec.find(0x7777)], r.choice([1, 1, 2, 7]), reboot=True)
            ops.append({"k": "inject", "t": round(t0 + j * 0.0005, 9), "to": to, "ch": "m" if j % 3 else "u", "src": src, "hex": data.hex(), "kind": "crowd"})
    return {"engine": "pair", "property": ID, "class": cls, "seed": seed, "cfg": cfg, "ops": ops, "until": 7.0}


SVC = {"svc": 0x4321, "inst": 1, "major": 1, "minor": 0, "methods": {"1": "echo", "2": "none", "3": "malformed"},
       "eventgroups": [{"id": 1, "interval": 0.5, "values": {"1": "aabb"}}]}


def gen_svc(seed, idx, r):
    ops = [{"k": "call", "t": 0.0, "f": "start", "a": []},
           {"k": "sd", "t": 0.01, "p": 0, "ch": "u", "e": [["sub", 0x4321, 1, 1, 1, 0xFFFFFF, 0, [["ep", 4, "10.0.0.11", 17, 4000]]]]}]
    for j in range(r.randint(1, 10)):
        data, kind = make_injection(r)
        ops.append({"k": "raw", "t": round(r.uniform(0.02, 2.0), 6), "p": r.randrange(3), "ch": r.choice("uum"), "to": r.choice(["svc", "svc", "sd"]), "hex": data.hex(), "kind": kind})
    cfg = {"service": SVC, "timings": dict(T, CYCLIC_OFFER_DELAY=1), "resolver": [0.0, 0.01]}
    return {"engine": "svc", "property": ID, "class": "svc", "seed": seed, "cfg": cfg, "ops": ops, "until": 3.0}


# ------------------------------------------------------------------ decoder level
class _Watchdog(Exception):
    pass


def _guard(fn, *a):
    """run a decoder with a step watchdog (termination)"""
    steps = [0]

    def tracer(frame, event, arg):
        steps[0] += 1
        if steps[0] > 200000:
            raise _Watchdog()
        return tracer

    old = sys.gettrace()
    sys.settrace(tracer)
    try:
        return ("ok", fn(*a))
    except header.ParseError:
        return ("parse-error", None)
    except UnicodeDecodeError:
        return ("unicode", None)
    except _Watchdog:
        return ("hang", None)
    except Exception as exc:  # noqa: B902
        return ("other:" + type(exc).__name__, None)
    finally:
        sys.settrace(old)


def decoder_level(data, viol, probes):
    def bad(dec, what, ctx):
        viol.append(("DECODER-OUTCOME", {"msg": f"{dec} on {len(data)} bytes ({data[:24].hex()}...): {what}", "context": f"{dec}:{ctx}"}))

    # SOME/IP
    st, val = _guard(header.SOMEIPHeader.parse, data)
    try:
        refdec.dec_someip(data)
        ref = "ok"
    except refdec.RefError:
        ref = "parse-error"
    if st not in ("ok", "parse-error"):
        bad("SOMEIPHeader.parse", st, st)
    elif st != ref:
        bad("SOMEIPHeader.parse", f"library {st}, reference {ref}", "accept-set")
    elif st == "ok" and not data.endswith(val[1]):
        bad("SOMEIPHeader.parse", "rest is not a suffix of the input", "suffix")
    # the SD decoders on the payload-like parts
    for off in (0, 16):
        buf = data[off:]
        st, val = _guard(header.SOMEIPSDHeader.parse, buf)
        try:
            refdec.dec_sd(buf)
            ref = "ok"
        except refdec.RefUnicode:
            ref = "unicode"
        except refdec.RefError:
            ref = "parse-error"
        if st not in ("ok", "parse-error", "unicode"):
            bad("SOMEIPSDHeader.parse", st, st)
        elif st != ref:
            bad("SOMEIPSDHeader.parse", f"library {st}, reference {ref}", "accept-set")
        elif st == "ok" and not buf.endswith(val[1]):
            bad("SOMEIPSDHeader.parse", "rest is not a suffix of the input", "suffix")
        if st == "unicode":
            probes["unicode_in_config"] = probes.get("unicode_in_config", 0) + 1
    for off in (0, 24, 28, 44, 48):
        buf = data[off:]
        for name, fn, args in (("SOMEIPSDEntry.parse", header.SOMEIPSDEntry.parse, (buf, 3)), ("SOMEIPSDOption.parse", header.SOMEIPSDOption.parse, (buf,))):
            st, val = _guard(fn, *args)
            if st not in ("ok", "parse-error", "unicode"):
                bad(name, st, st)
            elif st == "unicode":
                try:
                    refdec.dec_option(buf)
                    bad(name, "UnicodeDecodeError although the reference decoder meets no non-ASCII configuration string", "unicode-elsewhere")
                except refdec.RefUnicode:
                    pass
                except refdec.RefError:
                    bad(name, "UnicodeDecodeError where the reference decoder rejects the structure", "unicode-elsewhere")
            elif st == "ok" and not buf.endswith(val[1]):
                bad(name, "rest is not a suffix of the input", "suffix")


# ------------------------------------------------------------------ check
def history(log):
    return [(e[2], e[3], e[4], e[5]) for e in log if e[4] in ("cb", "tx")]


def check(plan, res):
    viol = []
    probes = {}
    injected = [op for op in plan["ops"] if op["k"] in ("inject", "raw")]
    probes["injected"] = len(injected)
    # RECEIVE-NO-RAISE
    for rec in res.loop_exc:
        viol.append(("RECEIVE-NO-RAISE", {"msg": f"{rec[2]} escaped into the event loop at {rec[0]:.6f}: {rec[3][:80]}", "context": f"{rec[2]}:{rec[4] and type(rec[4]).__name__}"}))
    all_rejected = True
    for op in injected:
        data = bytes.fromhex(op["hex"])
        if not plan.get("_twin"):
            decoder_level(data, viol, probes)
        msgs, classes, err = verdict(data)
        to_sd = op["k"] == "inject" or op.get("to") != "svc"
        if err is not None:
            probes["rejected_someip"] = probes.get("rejected_someip", 0) + 1
        for m, c in zip(msgs, classes):
            if c == "foreign":
                probes["rejected_sd_header" if not refdec.is_sd_header(m) else "rejected_sd_payload"] = probes.get("rejected_sd_header" if not refdec.is_sd_header(m) else "rejected_sd_payload", 0) + 1
            elif c == "sd" and to_sd:
                sdm = refdec.dec_sd(m.payload)
                if sdm.unicast and op.get("kind") == "valid" and tuple(op.get("src", ("",)))[0] == "10.0.0.78":
                    probes["valid_kept_in_twin"] = probes.get("valid_kept_in_twin", 0) + 1  # stays in the twin: affects both runs alike
                elif sdm.unicast and op.get("kind") in HARMLESS_KINDS and tuple(op.get("src", ("",)))[0] not in ("10.0.0.1", "10.0.0.2"):
                    # a FindService for a service nobody offers, from a sender outside the scenario: stays in the twin
                    # (both runs see it, neither reacts); what is rejected around it must not matter
                    probes["valid_kept_in_twin"] = probes.get("valid_kept_in_twin", 0) + 1
                elif sdm.unicast or op.get("kind") != "unicast-flag-clear":
                    all_rejected = False
                    probes["decodable_sd_injected"] = probes.get("decodable_sd_injected", 0) + 1
                else:
                    probes["unicast_flag_clear"] = probes.get("unicast_flag_clear", 0) + 1
            elif c == "unicode":
                probes["rejected_sd_payload"] = probes.get("rejected_sd_payload", 0) + 1  # undecodable payload like any other
        if op.get("kind") == "prefix+garbage":
            probes["valid_prefix_plus_garbage"] = probes.get("valid_prefix_plus_garbage", 0) + 1
    if plan["engine"] == "pair" and not plan.get("_twin") and all_rejected and injected and not res.loop_exc:
        # twin: the same plan without the rejected datagrams (a valid prefix stays)
        ops2 = []
        for op in plan["ops"]:
            if op["k"] != "inject":
                ops2.append(op)
                continue
            data = bytes.fromhex(op["hex"])
            msgs, classes, err = verdict(data)
            keep = b""
            pos = 0
            for m, c in zip(msgs, classes):
                ln = 16 + len(m.payload)
                if c == "sd" and refdec.dec_sd(m.payload).unicast:
                    keep += data[pos : pos + ln]
                pos += ln
            if keep:
                ops2.append(dict(op, hex=keep.hex()))
        twin = dict(plan, ops=ops2, _twin=True)
        r2 = pair.execute(twin)
        probes["twin_compared"] = 1
        a, b = history(res.log), history(r2.log)
        # an extra wake-up of the loop lets timers due within one clock resolution run that much earlier (and
        # what they schedule follows): instants are compared with that tolerance per injection
        tol = core.RES * (len(injected) + 1)

        def same(x, y):
            return x[1:] == y[1:] and abs(x[0] - y[0]) <= tol

        if len(a) != len(b) or not all(same(x, y) for x, y in zip(a, b)):
            d = next((i for i, (x, y) in enumerate(zip(a, b)) if not same(x, y)), min(len(a), len(b)))
            x = a[d] if d < len(a) else b[d]
            rule = "UNICAST-FLAG" if any(op.get("kind") == "unicast-flag-clear" for op in injected) and all(op.get("kind") == "unicast-flag-clear" or True for op in injected) and _only_flag(injected) else "TWIN-EQUAL"
            viol.append((rule, {"msg": f"history differs from the twin without the rejected datagrams at event {d}: {str(x)[:150]}", "context": f"history:{x[2]}"}))
        else:
            for n in res.state:
                s1, s2 = res.state[n], r2.state[n]
                if s1 is None or s2 is None:
                    continue
                for part in ("found", "subscriptions", "incoming"):
                    v1, v2 = s1[part], s2[part]
                    if part == "incoming":
                        # a decodable SD message with the unicast flag clear legitimately leaves its sender's session record
                        flag_srcs = {tuple(op["src"]) for op in injected if op.get("kind") == "unicast-flag-clear" and "src" in op}
                        v1 = [x for x in v1 if x[0][0] not in flag_srcs]
                        v2 = [x for x in v2 if x[0][0] not in flag_srcs]
                    if v1 != v2:
                        rule = "UNICAST-FLAG" if _only_flag(injected) else "TWIN-EQUAL"
                        viol.append((rule, {"msg": f"final {part} state of node {n} differs from the twin: {str(v1)[:120]} vs {str(v2)[:120]}", "context": f"state:{part}"}))
    foreign = bool(res.swallowed)
    rejected = sum(probes.get(k, 0) for k in ("rejected_someip", "rejected_sd_header", "rejected_sd_payload", "unicast_flag_clear"))
    return {"violations": viol, "nontrivial": rejected > 0, "probes": probes, "states": set(), "foreign": foreign}


def _only_flag(injected):
    return all(op.get("kind") == "unicast-flag-clear" for op in injected)


def site(rule, plan, detail):
    return detail.get("context", "general")
