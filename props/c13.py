"""C13 — FindService is sent only for watched services not yet found, bounded in number."""
from models.find import FindOracle
from sim import single
from sim.core import RES
from .common import COMPONENTS, ASSUMPTIONS, rng, add_send_errors  # noqa: F401

ID = "C13"
LEVEL = "exploration"
MINIMISE_S = 6.0
RULES = {
    "FIND-SET": "each round names exactly the watched filters for which no matching live offer is known (an offer arriving or expiring within one clock resolution of the round may go either way); a round is sent while something watched is unfound",
    "CONTENT": "entries carry the watched ids with wildcards preserved, the configured find TTL and no options",
    "DEST": "rounds go to the multicast group",
    "FIRST-IN-WINDOW": "the first round leaves within the initial-delay window after start",
    "DOUBLING": "round k+1 follows round k after 2^k x base delay",
    "MAX-ROUNDS": "at most 1 + REPETITIONS_MAX rounds per start",
    "QUIET": "no FindService once every watched service is found, nor while discovery is stopped",
}
RULE_TEXT = (
    "random plans: 1-4 watched filters (exact, wildcard instance / major / minor, two services), timing configuration drawn per run "
    "(initial window incl. min=max, 0-4 repetitions, base delay 10-200 ms, find TTL), rogue offers / stop-offers / TTL-1 offers / peer "
    "reboots for any subset placed at +-100us, +-res/4 and exactly at each round instant of the run so far, discovery stop / start, busy "
    "periods. non-trivial = at least one round was judged; distinct = interleaving signature"
)
PROBES = ["watch_while_rounds_running", "rounds_judged", "round_with_expiry_or_arrival_at_the_same_instant", "round_skipped_everything_found", "first_round_min_eq_max"]
RUNS = {"quick": 30000, "thorough": 2500000}
FILTER_POOL = [
    [0x1111, 0xFFFF, 0xFF, 0xFFFFFFFF],
    [0x1111, 1, 1, 0xFFFFFFFF],
    [0x2222, 0xFFFF, 1, 5],
    [0x1111, 2, 0xFF, 0],
    [0x3333, 7, 0xFF, 0xFFFFFFFF],
    [0x2222, 3, 2, 0xFFFFFFFF],
    [0x1111, 1, 1, 1],  # differs from the second filter only in the minor version
    [0x1111, 1, 1, 3],
]
KEYS = [(0x1111, 1, 1, 1), (0x1111, 1, 1, 3), (0x1111, 1, 1, 0), (0x1111, 2, 1, 0), (0x2222, 1, 1, 5), (0x3333, 7, 4, 9), (0x2222, 3, 2, 1), (0x1111, 1, 2, 0)]
OFFS = [-1e-4, -RES / 4, 0.0, RES / 4, 1e-4]
INF_TTL = 0xFFFFFF


def budget(tier):
    return RUNS[tier], {"quick": 150, "thorough": 1800}[tier]


def instants(plan, horizon):
    res = single.execute(dict(plan, until=horizon, cfg=dict(plan["cfg"], trace_timers=True)))
    ts = set(res.timer_log or ())
    ts.update(e[2] for e in res.log if e[4] == "tx")
    return sorted(t for t in ts if 0 < t < horizon)


def gen(seed, idx, tier):
    r = rng(seed, ID, idx)
    lo, hi = r.choice([(0.0, 0.0), (0.1, 0.1), (0.0, 0.4), (0.2, 0.6)])
    timings = {
        "INITIAL_DELAY_MIN": lo,
        "INITIAL_DELAY_MAX": hi,
        "REPETITIONS_MAX": r.randint(0, 4),
        "REPETITIONS_BASE_DELAY": r.choice([0.01, 0.05, 0.2]),
        "FIND_TTL": r.choice([3, 1, 0xFFFFFF]),
        "SUBSCRIBE_REFRESH_INTERVAL": None,
    }
    nf = r.randint(1, 4)
    filters = r.sample(FILTER_POOL, nf)
    late_watch = nf > 1 and r.random() < 0.25  # the last filter is only watched while the rounds are already running
    cfg = {"filters": filters, "timings": timings, "sock_flip": r.choice([0, 0.5, 1.0])}
    u = r.random()
    if u < 0.2:
        cfg["uniform"] = [0.0]
    elif u < 0.4:
        cfg["uniform"] = [1.0]
    ops = [{"k": "call", "t": 0.0, "f": "watch", "a": [i, f"L{i}"]} for i in range(nf - (1 if late_watch else 0))]
    # some offers may already be known at start
    t = 0.0
    if r.random() < 0.3:
        k = r.choice(KEYS)
        ops.append({"k": "sd", "t": 0.0, "p": 0, "ch": "m", "e": [["offer", k[0], k[1], k[2], k[3], r.choice([1, 3, INF_TTL])]]})
    t_start = r.choice([0.0, 0.0, 0.05])
    if r.random() < 0.12 and hi > 0:
        # everything that is watched is already offered when the discovery starts; one of the offers ends inside the
        # initial-delay window: the first round is due for that service after all
        seen = []
        for f in filters[: nf - (1 if late_watch else 0)]:
            k = next((k for k in KEYS if k[0] == f[0] and f[1] in (0xFFFF, k[1]) and f[2] in (0xFF, k[2]) and f[3] in (0xFFFFFFFF, k[3])), None)
            if k is not None:
                ops.append({"k": "sd", "t": 0.0, "p": 1, "ch": "m", "e": [["offer", k[0], k[1], k[2], k[3], r.choice([3, INF_TTL])]]})
                seen.append(k)
        if seen:
            k = r.choice(seen)
            ops.append({"k": "sd", "t": round(t_start + r.uniform(0.0, lo if lo else hi / 4), 6) + 1e-5, "p": 1, "ch": "m", "e": [["offer", k[0], k[1], k[2], k[3], 0]]})
    ops.append({"k": "call", "t": t_start, "f": "start", "a": []})
    if r.random() < 0.15:
        # a service comes, goes and comes back within its first TTL, while the rounds for another one go on: the
        # deadline of the first offer passes with the second offer alive
        timings["REPETITIONS_MAX"] = r.choice([3, 4])
        timings["REPETITIONS_BASE_DELAY"] = 0.2
        k = r.choice(KEYS)
        p0, ch0 = r.randrange(3), r.choice("mu")
        t0 = round(t_start + r.uniform(0.0, 0.4), 6)
        ops.append({"k": "sd", "t": t0, "p": p0, "ch": ch0, "e": [["offer", k[0], k[1], k[2], k[3], 1]]})
        ops.append({"k": "sd", "t": round(t0 + r.choice([0.05, 0.3]), 6), "p": p0, "ch": ch0, "e": [["offer", k[0], k[1], k[2], k[3], 0]]})
        ops.append({"k": "sd", "t": round(t0 + r.choice([0.35, 0.6, 0.9]), 6), "p": p0, "ch": ch0, "e": [["offer", k[0], k[1], k[2], k[3], r.choice([3, INF_TTL])]]})
    plan = {"engine": "single", "property": ID, "class": "random", "seed": seed, "cfg": cfg, "ops": ops, "until": 6.0}
    horizon = 5.0
    aligned = r.random() < 0.8
    il = instants(plan, horizon) if aligned else []
    t = t_start
    for j in range(r.randint(0, 7)):
        later = [x for x in il if x >= t]
        if later and r.random() < 0.7:
            t = max(t, r.choice(later[:8]) + r.choice(OFFS))
        else:
            t = round(r.uniform(t, min(horizon, t + 1.0)), 6)
        k = r.random()
        key = r.choice(KEYS)
        p = r.randrange(3)
        ch = r.choice("mmu")
        disturbed = True
        if k < 0.50:
            ents = [["offer", key[0], key[1], key[2], key[3], r.choice([1, 1, 3, INF_TTL])]]
            if r.random() < 0.2:
                k2 = r.choice(KEYS)
                ents.append(["offer", k2[0], k2[1], k2[2], k2[3], r.choice([1, 3])])
            ops.append({"k": "sd", "t": t, "p": p, "ch": ch, "e": ents})
        elif k < 0.65:
            ops.append({"k": "sd", "t": t, "p": p, "ch": ch, "e": [["offer", key[0], key[1], key[2], key[3], 0]]})
        elif k < 0.75:
            ops.append({"k": "preboot", "t": t, "p": p})
            ops.append({"k": "sd", "t": t, "p": p, "ch": ch, "e": [["find", 0x7777, 0xFFFF, 0xFF, 0xFFFFFFFF, 3]]})
        elif k < 0.85 and late_watch:
            ops.append({"k": "call", "t": t, "f": "watch", "a": [nf - 1, f"L{nf - 1}"], "ph": r.choice(["io", "timer", "late"])})
            late_watch = False
        elif k < 0.85:
            ops.append({"k": "call", "t": t, "f": r.choice(["disc_stop", "disc_start"]), "a": [], "ph": r.choice(["io", "timer", "late"])})
        else:
            ops.append({"k": "busy", "t": max(0.0, t - 0.001), "d": r.choice([0.002, 0.02])})
            disturbed = False
        if aligned and disturbed:
            il = instants(plan, horizon)
    plan["until"] = round(max(6.0, t + 4.0), 6)
    add_send_errors(cfg, seed, ID, idx)
    return plan


MY_RULES = set(RULES)


def check(plan, res):
    o = FindOracle(plan["cfg"]["filters"], plan["cfg"]["timings"]).walk(res.log)
    v = [(r, d) for r, d in o.violations if r in MY_RULES]
    foreign = bool(res.loop_exc or res.swallowed or res.op_exc)
    return {"violations": v, "nontrivial": o.nfinds > 0 or o.probes.get("round_skipped_everything_found", 0) > 0, "probes": o.probes, "states": o.states, "foreign": foreign}


def site(rule, plan, detail):
    return detail.get("context", "general")
