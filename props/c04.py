"""C04 — two SD stacks converge: offers are discovered, subscriptions established."""
from models.discovery import DiscoveryOracle
from models.subscription import SubscriptionOracle
from sim import pair
from sim.core import RES
from .common import COMPONENTS, ASSUMPTIONS, rng  # noqa: F401

ID = "C04"
LEVEL = "exploration"
MINIMISE_S = 15.0
RULES = {
    "CONVERGED-OFFER": "at every idle point later than D + TTL + P + slack (D = last disturbance): the running watcher's latest notification for the offerer's instance is 'offered' iff the offerer is alive, started and announcing",
    "CONVERGED-SUBSCRIPTION": "same window: the live offerer's latest notification for the watcher's subscription is 'subscribed' iff it is offering and the watcher is alive and started",
    "ALWAYS-C05": "during the whole run, faults included, every incarnation of the watcher satisfies the C05 rules (ALT, TRUTH, REBOOT-ORDER, FILTER, expiry timing) against what it actually received",
    "ALWAYS-C06": "during the whole run every incarnation of the offerer satisfies the C06 rules (ALT, TRUTH, NO-REJECTED, ACK-HELD, REBOOT-ORDER, expiry timing) against what it actually received",
}
RULE_TEXT = (
    "random plans: offerer A and auto-subscribing watcher B (bystander C in 40% of the runs), independent timing configurations with finite "
    "TTLs 2-6 s, cyclic / refresh period below the TTL, 0-3 repetitions, collection timeout 0/5/50 ms, latency 0.1-20 ms with jitter, "
    "multicast loopback on/off, clock drift up to 2%; 0-6 stop / start / crash / restart operations on A, B, C placed uniformly or at "
    "+-100us / exactly at the timer deadlines and transmission / delivery instants of a fault-free pre-run of the same seed; 0-2 windows of "
    "datagram loss, duplication, delay (reordering) and partition. non-trivial = at least one disturbance fired and the convergence window "
    "was evaluated; distinct = interleaving signature"
)
PROBES = [
    "stalls",
    "crash_between_subscribe_and_ack",
    "reboot_evidence_with_offer_in_one_message",
    "reboot_evidence_with_subscribe_in_one_message",
    "offer_and_deadline_in_one_epoch",
    "converged_checks",
    "disturbance_at_recorded_instant",
    "noncyclic_offerer",
    "watcher_restarted_under_noncyclic_offerer",
    "stop_start_same_iteration",
    "clock_past_0xFFFFFF",
]
RUNS = {"quick": 8000, "thorough": 1000000}
OFFS = [-1e-4, 0.0, 1e-4]
HASHSEEDS = [1]


def budget(tier):
    return RUNS[tier], {"quick": 200, "thorough": 2400}[tier]


def draw_node_timings(r):
    ttl = r.choice([2, 3, 4, 6])
    sttl = r.choice([2, 3, 5, 6])
    cyc = r.choice([x for x in (0.5, 1.0, 1.5, 2.5, 4.0) if x <= ttl - 0.5])
    ref = r.choice([x for x in (0.5, 1.0, 1.5, 2.5, 4.0) if x <= sttl - 0.5])
    lo, hi = r.choice([(0.0, 0.0), (0.0, 0.3), (0.1, 0.1), (0.05, 0.4)])
    return {
        "INITIAL_DELAY_MIN": lo,
        "INITIAL_DELAY_MAX": hi,
        "REPETITIONS_MAX": r.randint(0, 3),
        "REPETITIONS_BASE_DELAY": r.choice([0.01, 0.05]),
        "CYCLIC_OFFER_DELAY": cyc,
        "ANNOUNCE_TTL": ttl,
        "FIND_TTL": 3,
        "SUBSCRIBE_TTL": sttl,
        "SUBSCRIBE_REFRESH_INTERVAL": ref,
        "SEND_COLLECTION_TIMEOUT": r.choice([0, 0.005, 0.05]),
        "REQUEST_RESPONSE_DELAY_MIN": 0.01,
        "REQUEST_RESPONSE_DELAY_MAX": r.choice([0.01, 0.05]),
    }


def slack_of(cfg):
    s = 0.0
    for n in cfg["nodes"].values():
        t = n["timings"]
        s = max(s, t["INITIAL_DELAY_MAX"] + (2 ** t["REPETITIONS_MAX"]) * t["REPETITIONS_BASE_DELAY"] + 2 * t["SEND_COLLECTION_TIMEOUT"] + t["REQUEST_RESPONSE_DELAY_MAX"])
    net = cfg["net"]
    return s + 6 * (net["latency"] + net["jitter"]) + 0.05


def horizon(cfg, D):
    if cfg.get("infinite"):
        p = max([n["timings"]["CYCLIC_OFFER_DELAY"] for n in cfg["nodes"].values()] + [1.0])
        w0 = D + 2 * p + slack_of(cfg)
        return w0, w0 + p + 0.5
    ta, tb = cfg["nodes"]["A"]["timings"], cfg["nodes"]["B"]["timings"]
    drift = max([abs(1 - x) for x in cfg.get("drift", {}).values()] + [0.0])
    ttl = max(ta["ANNOUNCE_TTL"], tb["SUBSCRIBE_TTL"]) * (1 + drift)
    p = max(ta["CYCLIC_OFFER_DELAY"], tb["SUBSCRIBE_REFRESH_INTERVAL"]) * (1 + drift)
    w0 = D + ttl + p + slack_of(cfg)
    return w0, w0 + p + 0.5


def last_disturbance(plan):
    D = 0.0
    for op in plan["ops"]:
        D = max(D, op["t"] + op.get("d", 0.0))
    net = plan["cfg"]["net"]
    for w in net.get("windows", []):
        D = max(D, w["t1"] + (w.get("max", 0.0) if w["kind"] == "delay" else 0.0) + 2 * (net["latency"] + net["jitter"]) + 0.01)
    for w in net.get("partitions", []):
        D = max(D, w["t1"])
    return D


def instants(plan, upto):
    p = dict(plan, ops=[], until=upto, cfg=dict(plan["cfg"], trace_timers=True, net=dict(plan["cfg"]["net"], windows=[], partitions=[])))
    res = pair.execute(p)
    ts = set(x for x in (res.timer_log or ()) if x < upto)
    for e in res.log:
        if e[4] in ("tx", "rx"):
            ts.add(e[2])
    return sorted(t for t in ts if 0.05 < t < upto)


def gen_infinite(seed, idx):
    """infinite TTLs, no refresh: lossless FIFO network, graceful stop/start and crash-followed-by-restart only,
    each disturbance after the two sides had time to exchange traffic on both channels (steady sub-class)"""
    r = rng(seed, ID, "inf", idx)
    nodes = {"A": {"role": "offerer", "timings": draw_node_timings(r)}, "B": {"role": "watcher", "timings": draw_node_timings(r)}}
    for n in nodes.values():
        n["timings"].update({"ANNOUNCE_TTL": 0xFFFFFF, "SUBSCRIBE_TTL": 0xFFFFFF, "SUBSCRIBE_REFRESH_INTERVAL": None, "CYCLIC_OFFER_DELAY": r.choice([0.5, 1.0, 2.0])})
    noncyclic = r.random() < 0.25
    if noncyclic:
        # the offerer announces during its repetition phase only; afterwards it is found through FindService alone
        nodes["A"]["timings"]["CYCLIC_OFFER_DELAY"] = 0
        nodes["A"]["timings"]["REPETITIONS_MAX"] = r.randint(0, 2)
    lat = r.choice([0.0001, 0.001, 0.005, 0.02])
    net = {"latency": lat, "jitter": r.choice([0.0, lat / 2]), "windows": [], "partitions": []}
    cfg = {"nodes": nodes, "net": net, "mc_loop": r.random() < 0.4, "sock_flip": r.choice([0, 0.5, 1.0]), "infinite": True}
    gap = 2 * max([n["timings"]["CYCLIC_OFFER_DELAY"] for n in nodes.values()] + [1.0]) + 1.0
    t = gap
    ops = []
    state = {"A": "run", "B": "run"}
    quiet_after = False
    if r.random() < 0.3:
        # a graceful stop of either side in the very instant (before or after, same loop iteration) a datagram of the
        # peer arrives - among them the one through which the watcher learns of the service - and a start later on
        # (no jitter here: with answers still in flight a unicast Offer overtaken by the multicast StopOffer is a
        # reordering, which the infinite-TTL clause excludes - nothing would ever repair the stale offer)
        net["jitter"] = 0.0
        n = r.choice("BBA")
        if n == "A":
            # ... and the same reordering happens without jitter when the flushed unicast Offer and the multicast
            # StopOffer arrive in one instant and the two sockets are read in the other order (seed 506, plan 6117)
            cfg["sock_flip"] = 0
        pre = pair.execute({"engine": "pair", "seed": seed, "cfg": cfg, "ops": [], "until": 3.0})
        arr = sorted({e[2] for e in pre.log if e[4] == "rx" and e[3].startswith(n) and e[5][1][0] != pair.ADDR[n][0]})
        if arr:
            tt = arr[0] if r.random() < 0.6 else r.choice(arr[:4])
            ops.append({"k": "node", "t": tt, "n": n, "f": "stop", "late": r.random() < 0.7})
            quiet_after = r.random() < 0.5
            if r.random() < 0.6:
                ops.append({"k": "node", "t": round(tt + gap + r.uniform(0, 1.0), 6), "n": n, "f": "start"})
                t = ops[-1]["t"] + gap
            else:
                state[n] = "stopped"
                t = tt + gap
    for j in range(r.randint(1, 5) if not quiet_after else 0):
        n = r.choice("AB")
        if state[n] == "run":
            f = r.choice(["stop", "crash"])
        else:
            f = "start"
        tt = round(t + r.uniform(0, 1.0), 6)
        ops.append({"k": "node", "t": tt, "n": n, "f": f})
        if f == "crash":
            ops.append({"k": "node", "t": round(tt + r.choice([0.001, 0.05, 0.5, 2.0]), 6), "n": n, "f": "restart"})
            t = tt + 2.0
        elif f == "stop" and r.random() < 0.3:
            # stopped and started again at once (no loop iteration in between)
            ops.append({"k": "node", "t": tt, "n": n, "f": "start"})
            t = tt
        else:
            state[n] = "stopped" if f == "stop" else "run"
            t = tt
        t += gap
    plan = {"engine": "pair", "property": ID, "class": "infinite-steady", "seed": seed, "cfg": cfg, "ops": ops, "until": 0}
    D = last_disturbance(plan)
    p = max([n["timings"]["CYCLIC_OFFER_DELAY"] for n in nodes.values()] + [1.0])
    plan["w0"] = round(D + 2 * p + slack_of(cfg), 6)
    plan["until"] = round(plan["w0"] + p + 0.5, 6)
    if noncyclic and r.random() < 0.4:
        # nothing periodic is left in this configuration: let 0xFFFFFF seconds (194 days) pass - "infinite" stays infinite
        plan["until"] = float(0x1000000 + 1000)
        plan["far"] = True
    return plan


def directed(i):
    """the recorded known finding, exercised on every run: infinite TTLs, the watcher restarts, its unicast Subscribe
    overtakes its own multicast FindService (jitter): the second reboot detection wipes the new subscription
    (the plan the soundness sweep found with seed 6, index 2494, stored verbatim).
    Plan 1 is the mirror image: a non-cyclic offerer restarts; the watcher detects the reboot on the multicast channel
    (the new offers) and again on the unicast channel (the acknowledgement of its new Subscribe) and forgets the
    service for good, since no cyclic offer follows."""
    import json
    import os

    with open(os.path.join(os.path.dirname(__file__), f"c04_directed{i}.json")) as f:
        plan = json.load(f)
    plan["class"] = "directed-infinite"
    return plan


NDIRECTED = 2
NONCYCLIC_SITE = "infinite-ttl:non-cyclic-offerer-restarted:reboot-detection-per-channel"


def gen_lost_stopoffer(seed, idx):
    """a graceful stop whose StopOffer is lost, and a start again before the watcher's offer TTL runs out: the watcher
    never notices the interruption (later offers only refresh its record); its Subscribe refreshes are refused while the
    offerer is down and must re-establish the subscription afterwards"""
    r = rng(seed, ID, "lso", idx)
    ta, tb = draw_node_timings(r), draw_node_timings(r)
    ta["ANNOUNCE_TTL"] = r.choice([4, 6])
    ta["CYCLIC_OFFER_DELAY"] = r.choice([0.5, 1.0])
    tb["SUBSCRIBE_REFRESH_INTERVAL"] = r.choice([0.5, 1.0])
    tb["SUBSCRIBE_TTL"] = r.choice([3, 5])
    nodes = {"A": {"role": "offerer", "timings": ta}, "B": {"role": "watcher", "timings": tb, "second_watch": r.random() < 0.3}}
    lat = r.choice([0.0001, 0.001, 0.005])
    net = {"latency": lat, "jitter": 0.0, "windows": [], "partitions": []}
    cfg = {"nodes": nodes, "net": net, "mc_loop": r.random() < 0.3, "sock_flip": r.choice([0, 0.5])}
    t1 = round(r.uniform(2.0, 4.0), 6)
    down = round(r.uniform(tb["SUBSCRIBE_REFRESH_INTERVAL"] + 0.1, ta["ANNOUNCE_TTL"] - ta["CYCLIC_OFFER_DELAY"] - 0.3), 6)
    net["windows"].append({"t0": round(t1 - 0.002, 6), "t1": round(t1 + 0.12, 6), "kind": "drop", "rate": 1.0, "node": "10.0.0.1"})
    ops = [{"k": "node", "t": t1, "n": "A", "f": "stop"}, {"k": "node", "t": round(t1 + down, 6), "n": "A", "f": "start"}]
    plan = {"engine": "pair", "property": ID, "class": "lost-stopoffer", "seed": seed, "cfg": cfg, "ops": ops, "until": 0}
    w0, until = horizon(cfg, last_disturbance(plan))
    plan["until"] = round(until, 6)
    return plan


def gen(seed, idx, tier):
    if idx < NDIRECTED:
        return directed(idx)
    if idx % 5 == 4:
        return gen_infinite(seed, idx)
    if idx % 10 == 7:
        return gen_lost_stopoffer(seed, idx)
    r = rng(seed, ID, idx)
    nodes = {
        "A": {"role": "offerer", "timings": draw_node_timings(r), "second_instance": r.random() < 0.3},
        "B": {"role": "watcher", "timings": draw_node_timings(r), "second_watch": r.random() < 0.4, "start_at": r.choice([0.0, 0.0, 0.3])},
    }
    if r.random() < 0.4:
        nodes["C"] = {"role": "bystander", "timings": draw_node_timings(r)}
    lat = r.choice([0.0001, 0.001, 0.005, 0.02])
    net = {"latency": lat, "jitter": r.choice([0.0, lat / 2, lat]), "windows": [], "partitions": []}
    cfg = {"nodes": nodes, "net": net, "mc_loop": r.random() < 0.4, "sock_flip": r.choice([0, 0.5, 1.0])}
    if r.random() < 0.25:
        cfg["drift"] = {r.choice(["A", "B"]): r.choice([0.98, 0.99, 1.01, 1.02])}
    plan = {"engine": "pair", "property": ID, "class": "random", "seed": seed, "cfg": cfg, "ops": [], "until": 0}
    Tf = r.choice([3.0, 6.0, 9.0])
    nops = r.choice([0, 1, 1, 2, 2, 3, 4, 6])
    aligned = r.random() < 0.7 and nops > 0
    il = instants(plan, Tf) if aligned else []
    names = sorted(nodes)
    state = {n: "run" for n in names}
    ops = []
    t = 0.2
    for j in range(nops):
        if il and r.random() < 0.75:
            t = max(t, r.choice(il) + r.choice(OFFS))
        else:
            t = round(r.uniform(t, Tf), 6)
        n = r.choice(["A", "B", "A", "B"] + (["C"] if "C" in nodes else []))
        st = state[n]
        if st == "run":
            f = r.choice(["stop", "crash", "crash"])
        elif st == "stopped":
            f = r.choice(["start", "start", "crash"])
        else:
            f = "restart"
        state[n] = {"stop": "stopped", "start": "run", "crash": "dead", "restart": "run"}[f]
        ops.append({"k": "node", "t": t, "n": n, "f": f})
        if f == "crash" and r.random() < 0.6:
            t2 = round(t + r.choice([0.001, 0.05, 0.5, 2.0]), 6)
            ops.append({"k": "node", "t": t2, "n": n, "f": "restart"})
            state[n] = "run"
            t = max(t, t2) if r.random() < 0.5 else t
    if r.random() < 0.2:
        # a node is frozen for a while (a long GC pause, a suspended VM): its timers and its input wait
        ops.append({"k": "stall", "t": round(r.uniform(0.2, Tf), 6) if not il or r.random() < 0.4 else r.choice(il) + r.choice(OFFS), "n": r.choice("AB"), "d": r.choice([0.05, 0.5, 1.5, 3.0])})
    ops.sort(key=lambda o: o["t"])
    for w in range(r.choice([0, 0, 1, 1, 2])):
        t0 = round(r.uniform(0.0, Tf), 3)
        t1 = round(t0 + r.choice([0.05, 0.3, 1.0, 3.0]), 3)
        kind = r.choice(["drop", "drop", "dup", "delay", "partition"])
        if kind == "partition":
            net["partitions"].append({"t0": t0, "t1": t1, "a": ["10.0.0.1"], "b": ["10.0.0.2", "10.0.0.3"] if r.random() < 0.5 else ["10.0.0.2"]})
        else:
            wd = {"t0": t0, "t1": t1, "kind": kind, "rate": r.choice([0.3, 0.6, 1.0])}
            if kind == "delay":
                wd["max"] = r.choice([0.05, 0.2, 0.6])
            if r.random() < 0.4:
                wd["node"] = r.choice(["10.0.0.1", "10.0.0.2"])
            net["windows"].append(wd)
    # some of the loss is a failing sendto() at the sender (error_received() is called, nobody receives the datagram)
    # instead of a loss on the way; own random stream, so that everything else in the plan stays what it was
    r2 = rng(seed, ID, idx, "senderr")
    for wd in net["windows"]:
        if wd["kind"] == "drop" and r2.random() < 0.4:
            wd["kind"] = "senderr"
    plan["ops"] = ops
    plan["aligned"] = bool(il)
    D = last_disturbance(plan)
    w0, until = horizon(cfg, D)
    plan["until"] = round(until, 6)
    return plan


SERVICE = pair.SERVICE
C05_RULES = {"ALT", "TRUTH", "REBOOT-ORDER", "FILTER", "EXPIRY-TIME", "SPURIOUS-STOP"}
C06_RULES = {"ALT", "TRUTH", "NO-REJECTED", "ACK-HELD", "REBOOT-ORDER", "EXPIRY-TIME", "SPURIOUS-STOP"}


def check(plan, res):
    cfg = plan["cfg"]
    viol = []
    probes = {}
    states = set()
    drift = cfg.get("drift", {})
    sub_oracles = {}
    actors = sorted({e[3] for e in res.log if e[4] == "boot"})
    for actor in actors:
        role = cfg["nodes"][actor[0]]["role"]
        rate = drift.get(actor[0], 1.0)
        if role == "watcher":
            o = DiscoveryOracle([[SERVICE[0], 0xFFFF, 0xFF, 0xFFFFFFFF], [0x3333, 0xFFFF, 0xFF, 0xFFFFFFFF]], node=actor, rate=rate).walk(res.log)
            for rule, d in o.violations:
                if rule in C05_RULES:
                    viol.append(("ALWAYS-C05", {"msg": f"{actor}: {rule}: {d['msg']}", "context": f"{rule}:{d['context']}"}))
        elif role == "offerer":
            insts = [{"svc": SERVICE[0], "inst": 1, "major": 1, "minor": 0, "egs": [pair.EVENTGROUP]}, {"svc": 0x1111, "inst": 2, "major": 1, "minor": 0, "egs": []}]
            o = SubscriptionOracle(insts, node=actor, rate=rate).walk(res.log)
            sub_oracles[actor] = o
            for rule, d in o.violations:
                if rule in C06_RULES:
                    viol.append(("ALWAYS-C06", {"msg": f"{actor}: {rule}: {d['msg']}", "context": f"{rule}:{d['context']}"}))
        else:
            continue
        for k, n in o.probes.items():
            probes[k] = probes.get(k, 0) + n
        states |= o.states
    # convergence
    D = max(last_disturbance(plan), res.last_fault_arrival)
    w0, until = horizon(cfg, D)
    A, B = res.nodes["A"], res.nodes["B"]
    a_off = A.alive and A.started
    b_run = B.alive and B.started
    latest_off = None
    latest_sub = None
    nconv = 0
    reported = set()
    infinite = bool(cfg.get("infinite"))
    if infinite and not (A.alive and B.alive):
        # outside the clause's domain (a crash without restart; only a minimiser produces this)
        w0 = float("inf")
    detections = 0
    noncyclic_restart = False
    if infinite and A.alive and B.alive and not cfg["nodes"]["A"]["timings"].get("CYCLIC_OFFER_DELAY", 1):
        # non-cyclic offerer restarted under the eyes of the watcher's current incarnation (known finding, see NONCYCLIC_SITE)
        a_boot = max([e[2] for e in res.log if e[4] == "boot" and e[3] == A.actor] + [0.0])
        b_boot0 = max([e[2] for e in res.log if e[4] == "boot" and e[3] == B.actor] + [0.0])
        noncyclic_restart = A.inc >= 2 and a_boot > b_boot0
    if infinite and A.alive:
        # how often did the offerer's current incarnation detect a reboot of the watcher since the watcher's last boot?
        b_boot = max([e[2] for e in res.log if e[4] == "boot" and e[3] == B.actor] + [0.0])
        oa = sub_oracles.get(A.actor)
        if oa is not None:
            detections = sum(1 for (src, ridx, ep) in oa.reboots if src == pair.ADDR["B"] and res.log[ridx][2] >= b_boot)
    def evaluate(T):
        if b_run and (latest_off == "offered") != a_off and "o" not in reported:
            reported.add("o")
            ctx = "stale-offer" if not a_off else "offer-not-seen"
            if ctx == "offer-not-seen" and noncyclic_restart:
                ctx = NONCYCLIC_SITE
            viol.append(("CONVERGED-OFFER", {"msg": f"idle at {T:.6f} (D={D:.6f}, window from {w0:.6f}): offerer offering={a_off}, watcher's latest notification={latest_off}", "context": ctx}))
        if A.alive and (latest_sub == "subscribed") != (a_off and b_run) and "s" not in reported:
            reported.add("s")
            ctx = "stale-subscription" if not (a_off and b_run) else "subscription-missing"
            if infinite and ctx == "subscription-missing" and detections >= 2:
                ctx = "infinite-ttl:second-reboot-detection-on-other-channel"
            elif ctx == "subscription-missing" and noncyclic_restart:
                ctx = NONCYCLIC_SITE
            viol.append(("CONVERGED-SUBSCRIPTION", {"msg": f"idle at {T:.6f} (D={D:.6f}, window from {w0:.6f}): offering={a_off}, watcher running={b_run}, offerer's latest notification={latest_sub}", "context": ctx}))

    for seq, it, T, actor, kind, data in res.log:
        if kind == "cb":
            if actor == B.actor and data[0] in ("offered", "stopped") and data[1] == "L0" and data[2] == SERVICE and data[3] == pair.ADDR["A"]:
                latest_off = data[0]
            elif actor == A.actor and data[0] in ("subscribed", "unsubscribed") and data[1] == "S0" and data[3] == pair.ADDR["B"]:
                latest_sub = data[0]
        elif kind == "idle" and T >= w0:
            nconv += 1
            evaluate(T)
    if res.sim_time >= w0 and plan["until"] >= w0:
        # the end of the run is an idle point, too (a system with nothing left to do records no further event)
        nconv += 1
        evaluate(res.sim_time)
    probes["converged_checks"] = nconv
    probes["stalls"] = res.stats.get("stall", 0)
    if plan.get("aligned"):
        probes["disturbance_at_recorded_instant"] = 1
    if plan.get("far") and res.sim_time > 0xFFFFFF:
        probes["clock_past_0xFFFFFF"] = 1
    if not cfg["nodes"]["A"]["timings"].get("CYCLIC_OFFER_DELAY", 1):
        probes["noncyclic_offerer"] = 1
        if B.inc >= 2 and A.inc == 1:
            probes["watcher_restarted_under_noncyclic_offerer"] = 1
    nops = [o for o in plan["ops"] if o["k"] == "node"]
    if any(a["t"] == b["t"] and a["n"] == b["n"] and a["f"] == "stop" and b["f"] == "start" for a, b in zip(nops, nops[1:])):
        probes["stop_start_same_iteration"] = 1
    # crash between Subscribe and its acknowledgement
    crashes = [e[2] for e in res.log if e[4] == "crash"]
    if crashes:
        subs = [e[2] for e in res.log if e[4] == "rx" and e[3].startswith("A") and b"\x06\x00" in e[5][2][24:28]]
        if any(0 <= c - s < 0.06 for c in crashes for s in subs):
            probes["crash_between_subscribe_and_ack"] = 1
    disturbed = bool(plan["ops"] or cfg["net"]["windows"] or cfg["net"]["partitions"])
    foreign = bool(res.loop_exc or res.swallowed)
    return {"violations": viol, "nontrivial": disturbed and nconv > 0, "probes": probes, "states": states, "foreign": foreign}


def site(rule, plan, detail):
    return detail.get("context", "general")
