"""C09 — TTL expiry fires exactly once, on time, never early; a refresh postpones it."""
from models.discovery import DiscoveryOracle
from models.subscription import SubscriptionOracle
from .builders import Builder, INF_TTL, decode_index, ep, sweep_count as _sc
from .common import COMPONENTS, ASSUMPTIONS, rng, site_from_detail  # noqa: F401

ID = "C09"
LEVEL = "exploration"
MINIMISE_S = 6.0
RULES = {
    "EXPIRY-TIME": "a 'stopped'/'unsubscribed' that no stop, reboot, connection loss or service stop explains happens at (last refresh + ttl): never more than one clock resolution early, never later than the resolution plus an injected busy period covering the deadline",
    "SPURIOUS-STOP": "no expiry notification for an entry that has no finite deadline (infinite TTL, removed entry, refreshed entry whose old timer should be gone): a timer of a removed or refreshed entry never removes its successor",
    "TRUTH": "at every idle point after a deadline passed the entry has been reported ended (exactly once together with ALT); before it, it is still held",
    "ALT": "no second expiry for the same entry",
}
RULE_TEXT = (
    "sweep: i-th run = i-th history over a 23-symbol alphabet (offer / subscribe with ttl 1, 2, 3, 0xFFFFFE, infinite; stop; reboot evidence "
    "(remove-all-for-address) with and without re-add; refresh at deadline -100us, -res/4, exact, +res/4, +100us; busy period across the "
    "deadline; same instant; jump past 0xFFFFFF seconds); random: 5-40 symbols, 3 peers, 4 keys, both stores. non-trivial = at least one "
    "expiry or removal notification was judged; distinct = interleaving signature"
)
PROBES = [
    "expiry_on_time",
    "offer_and_deadline_in_one_epoch",
    "subscribe_and_deadline_in_one_epoch",
    "clock_past_0xFFFFFF",
    "ttl_0xFFFFFE_expired",
]

S1 = 0x1111
X, Y = (S1, 1, 1, 0), (S1, 2, 1, 0)
KEYS = [X, Y, (0x2222, 1, 1, 5)]
FILTERS = [[S1, 0xFFFF, 0xFF, 0xFFFFFFFF], [0x2222, 0xFFFF, 0xFF, 0xFFFFFFFF]]
INSTANCES = [{"svc": 0x4444, "inst": 1, "major": 1, "minor": 0, "egs": [1, 2]}]
I0 = (0x4444, 1, 1)
BIG = 0xFFFFFE
NSYM = 23
SWEEP_LEN = {"quick": 3, "thorough": 4}
RANDOM_RUNS = {"quick": 36000, "thorough": 3000000}
TIMINGS = {"INITIAL_DELAY_MIN": 0.0, "INITIAL_DELAY_MAX": 0.0, "REPETITIONS_MAX": 0, "CYCLIC_OFFER_DELAY": 0x2000000, "SEND_COLLECTION_TIMEOUT": 0.005, "SUBSCRIBE_REFRESH_INTERVAL": None, "SUBSCRIBE_TTL": 0xFFFFFF}


def sweep_count(L):
    return _sc(NSYM, L)


def budget(tier):
    return sweep_count(SWEEP_LEN[tier]) + RANDOM_RUNS[tier], {"quick": 120, "thorough": 1500}[tier]


def EXHAUSTIVE(tier, complete):
    return {"alphabet": NSYM, "max_length": SWEEP_LEN[tier], "histories": sweep_count(SWEEP_LEN[tier]), "completed": complete}


class B(Builder):
    def __init__(self):
        super().__init__()
        self.at0("announce", [0])
        self.at0("watch", [0, "L0"])
        self.at0("watch", [1, "L1"])
        self.at0("start")
        self.far = False

    def symbol(self, s):
        if s == 0:
            self.offer(0, X, 1)
        elif s == 1:
            self.offer(0, X, 2)
        elif s == 2:
            self.offer(0, X, 3)
        elif s == 3:
            self.offer(0, X, BIG)
        elif s == 4:
            self.offer(0, X, INF_TTL)
        elif s == 5:
            self.offer(0, X, 0)
        elif s == 6:
            self.preboot(0)
            self.offer(0, X, 1)
        elif s == 7:
            self.preboot(0)
            self.find(0)
        elif s == 8:
            self.sub(0, I0, 1, 1)
        elif s == 9:
            self.sub(0, I0, 1, 2)
        elif s == 10:
            self.sub(0, I0, 1, INF_TTL)
        elif s == 11:
            self.sub(0, I0, 1, 0)
        elif s == 12:
            self.preboot(0)
            self.sub(0, I0, 1, 1)
        elif s == 13:
            self.offer(1, X, 1)
        elif s == 22:
            # run the clock past 0xFFFFFF seconds
            self.advance(0x1000000)
            self.far = True
        else:
            # 14: +0.3s  15..19: deadline -100us, -res/4, exact, +res/4, +100us  20: busy  21: same
            self.time_symbol(s - 14)

    def plan(self, seed, cls, cfg=None):
        c = {"filters": FILTERS, "instances": INSTANCES, "timings": dict(TIMINGS)}
        if cfg:
            c.update(cfg)
        return {"engine": "single", "property": ID, "class": cls, "seed": seed, "cfg": c, "ops": self.ops, "until": self.until(2.0)}


def sweep_plan(i):
    syms = decode_index(i, NSYM)
    b = B()
    for s in syms:
        b.symbol(s)
    p = b.plan(0, "sweep")
    p["symbols"] = syms
    return p


def random_plan(seed, idx):
    r = rng(seed, ID, idx)
    b = B()
    watching = {0: ["L0"], 1: ["L1"]}
    nl = [1]
    for _ in range(r.randint(5, 40)):
        b.random_time(r)
        k = r.random()
        p = r.randrange(3)
        key = r.choice(KEYS)
        ttl = r.choice([1, 1, 2, 3, BIG, INF_TTL])
        # entries in front of the one of interest, as a peer's send collector produces them: the (negative)
        # acknowledgement of a Subscribe of ours, a FindService, the offer of something nobody watches
        pre = None
        if r.random() < 0.2:
            pre = [r.choice([["suback", 0x5555, 1, 1, 1, 0, 0], ["suback", 0x5555, 1, 1, 1, 3, 0], ["find", 0x7777, 0xFFFF, 0xFF, 0xFFFFFFFF, 3], ["offer", 0x6666, 1, 1, 0, 3]])]
        # several endpoint options in one Subscribe, in either order (the same subscription)
        eps = None
        if r.random() < 0.25:
            eps = [ep(p), ep(p, 4001)] if r.random() < 0.5 else [ep(p, 4001), ep(p)]
        if k < 0.30:
            if r.random() < 0.15:
                # one message refreshes an offer and a subscription
                b.offer(p, key, ttl, "u", extra=[["sub", I0[0], I0[1], I0[2], r.choice([1, 2]), ttl, 0, eps or [ep(p)]]], pre=pre)
            else:
                b.offer(p, key, ttl, r.choice("mmu"), pre=pre)
        elif k < 0.38:
            b.offer(p, key, 0, r.choice("mmu"))
        elif k < 0.46:
            b.preboot(p)
            if r.random() < 0.6:
                b.offer(p, key, ttl, r.choice("mu"))
            else:
                b.find(p, r.choice("mu"))
        elif k < 0.72:
            b.sub(p, I0, r.choice([1, 2]), ttl, r.choice([0, 0, 1]), eps=eps, pre=pre)
        elif k < 0.80:
            # (a StopSubscribe that names no endpoint matches no stored subscription: nobody's subscription ends)
            b.sub(p, I0, r.choice([1, 2]), 0, r.choice([0, 0, 1]), eps=eps if r.random() < 0.8 else [])
        elif k < 0.88:
            b.preboot(p)
            b.sub(p, I0, r.choice([1, 2]), ttl)
        elif k < 0.92:
            b.call(r.choice(["stop_announce", "announce"]), [0])
        elif k < 0.93:
            b.call("conn_lost", r.choice([[], ["u"], ["m"]]))
        elif k < 0.94:
            # the last listener of a filter goes and a listener comes (back): what is stored keeps its deadlines, and a
            # refresh received in between still counts
            fi = r.randrange(2)
            if watching[fi]:
                b.call("unwatch", [fi, watching[fi].pop()])
            else:
                nl[0] += 1
                watching[fi].append(f"L{nl[0]}")  # a listener object of its own, as in C05
                b.call("watch", [fi, watching[fi][-1]])
        elif k < 0.955:
            b.call("reject", [0, r.random() < 0.6])
        elif k < 0.975:
            b.advance(0x1000000)
        else:
            b.call(r.choice(["ann_stop", "ann_start"]))
    return b.plan(seed, "random", {"sock_flip": r.choice([0, 0.5, 1.0])})


def gen(seed, idx, tier):
    ns = sweep_count(SWEEP_LEN[tier])
    if idx < ns:
        return sweep_plan(idx)
    return random_plan(seed, idx - ns)


MY_RULES = set(RULES)


def check(plan, res):
    d = DiscoveryOracle(plan["cfg"]["filters"]).walk(res.log)
    s = SubscriptionOracle(plan["cfg"]["instances"]).walk(res.log)
    v = []
    for side, o in (("offer", d), ("subscription", s)):
        for r, det in o.violations:
            if r in MY_RULES:
                det = dict(det, context=side + ":" + det.get("context", ""))
                v.append((r, det))
    probes = dict(d.probes)
    for k, n in s.probes.items():
        probes[k] = probes.get(k, 0) + n
    if res.sim_time > 0xFFFFFF:
        probes["clock_past_0xFFFFFF"] = 1
    judged = probes.get("expiry_on_time", 0)
    foreign = bool(res.loop_exc or res.swallowed or res.op_exc)
    return {"violations": v, "nontrivial": judged > 0 or d.ncb + s.ncb > 1, "probes": probes, "states": d.states | s.states, "foreign": foreign}


site = site_from_detail
