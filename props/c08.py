"""C08 — outgoing session ids count 1..0xFFFF per destination; reboot flag clears on wrap."""
from models.session import OutgoingModel
from sim import refdec
from .common import COMPONENTS, ASSUMPTIONS, rng  # noqa: F401

ID = "C08"
LEVEL = "exploration"
MINIMISE_S = 20.0
RULES = {
    "SEQUENCE": "per destination the SD messages leaving the transport carry session ids 1, 2, ..., 0xFFFF, 1, ... with no gap, repeat or 0, independently of the other destinations",
    "FLAG": "the reboot flag is set on exactly the messages sent to a destination before that destination's first wrap-around",
    "EMPTY": "a send without entries transmits nothing (and, by SEQUENCE, consumes no id)",
    "NOTIFY-SEQUENCE": "event notifications to one subscriber carry session ids 1, 2, ..., 0xFFFF, 1, ... per destination",
}
RULE_TEXT = (
    "class walk: one destination is driven through more than 2 x 65535 transmissions by bursts of direct sends, interleaved (seeded) with "
    "bursts to the group and to 2-3 other peers that wrap at other moments and with empty sends; class traffic: a real announcer with 1 ms "
    "cyclic offers answering rogue FindService / Subscribe traffic from 3 peers at different rates for 70-140 simulated seconds; class "
    "notify (engine svc): a SimpleService with 1 ms cyclic notifications to several subscribers. non-trivial = at least one destination "
    "crossed its wrap-around; distinct = interleaving signature. Cheap classes on top of these: many (60-300 distinct destinations - "
    "hosts and ports - contacted in seeded order, the early ones and the group again afterwards: the per-destination table must not "
    "forget anybody; non-trivial = at least 65 destinations) and notify-race (the C17 workload: explicit rounds with a seeded resolver "
    "latency racing initial notifications of further subscriptions of the same endpoint; non-trivial = notifications judged)"
)
PROBES = ["wraps_crossed", "destinations", "empty_sends", "messages_judged", "second_wrap", "more_than_64_destinations"]
HEAVY_EVERY = 51
RUNS = {"quick": 16 * HEAVY_EVERY, "thorough": 1600 * HEAVY_EVERY}
SELFTEST_N = 6  # plan 0 is a soak run of 130 000+ transmissions, the next five are cheap
OFFER = ["offer", 0x1111, 1, 1, 0, 3]
PEER_HOSTS = ["10.0.0.11", "10.0.0.12", "10.0.0.13", "10.0.0.14"]


def budget(tier):
    return RUNS[tier], {"quick": 240, "thorough": 3000}[tier]


def gen_walk(seed, idx):
    r = rng(seed, ID, "walk", idx)
    target = r.choice([None, 0, 1])
    others = [d for d in (None, 0, 1, 2) if d != target]
    need = 2 * 0xFFFF + r.randint(1, 300)
    ops = [{"k": "call", "t": 0.0, "f": "start", "a": []}]
    t = 0.01
    sent = 0
    fresh_used = False
    # one other destination starts close to its own wrap, so that wraps happen at different moments
    pre = r.choice(others)
    ops.append({"k": "call", "t": 0.005, "f": "send_burst", "a": [[OFFER], pre, 0xFFFF - r.randint(1, 4000)]})
    while sent < need:
        n = r.choice([1, 2, 7, 100, 1000, 5000, 20000])
        n = min(n, need - sent)
        # near the wrap use small bursts so that other traffic interleaves right there
        for edge in (0xFFFF, 2 * 0xFFFF):
            if sent < edge <= sent + n and n > 3:
                n = max(1, edge - sent - r.randint(0, 2))
        ops.append({"k": "call", "t": round(t, 6), "f": "send_burst", "a": [[OFFER], target, n]})
        sent += n
        t += 0.001
        if sent > 0xFFFF and not fresh_used:
            # a destination that is contacted for the first time only after another one has wrapped
            fresh_used = True
            ops.append({"k": "call", "t": round(t, 6), "f": "send_burst", "a": [[OFFER], 3, r.randint(1, 5)]})
            t += 0.001
        for _ in range(r.randint(0, 3)):
            x = r.random()
            d = r.choice(others + [["10.0.0.11", 30491], [PEER_HOSTS[target] if target is not None else "10.0.0.12", 30492]])
            if x < 0.3:
                ops.append({"k": "call", "t": round(t, 6), "f": "send_burst", "a": [[], r.choice([target, d]), r.randint(1, 3)]})
            else:
                m = r.choice([1, 3, 50, 400, 2500])
                ops.append({"k": "call", "t": round(t, 6), "f": "send_burst", "a": [[OFFER, ["find", 0x2222, 0xFFFF, 0xFF, 0xFFFFFFFF, 3]][: r.randint(1, 2)], d, m]})
            t += 0.001
    cfg = {"timings": {"SUBSCRIBE_REFRESH_INTERVAL": None, "INITIAL_DELAY_MIN": 0, "INITIAL_DELAY_MAX": 0, "REPETITIONS_MAX": 0}, "max_iterations": 2000000}
    return {"engine": "single", "property": ID, "class": "walk", "seed": seed, "cfg": cfg, "ops": ops, "until": round(t + 1.0, 6)}


def gen_traffic(seed, idx):
    r = rng(seed, ID, "traffic", idx)
    dur = r.choice([70.0, 100.0, 140.0])
    cfg = {
        "instances": [{"svc": 0x1111, "inst": 1, "major": 1, "minor": 0, "egs": [1]}],
        "timings": {
            "INITIAL_DELAY_MIN": 0,
            "INITIAL_DELAY_MAX": 0,
            "REPETITIONS_MAX": 0,
            "CYCLIC_OFFER_DELAY": 0.001,
            "SEND_COLLECTION_TIMEOUT": 0,
            "REQUEST_RESPONSE_DELAY_MIN": 0,
            "REQUEST_RESPONSE_DELAY_MAX": 0.001,
            "SUBSCRIBE_REFRESH_INTERVAL": None,
        },
        "max_iterations": 5000000,
    }
    ops = [{"k": "call", "t": 0.0, "f": "announce", "a": [0]}, {"k": "call", "t": 0.0, "f": "start", "a": []}]
    # rogue peers ask at different rates: their unicast counters advance at different speeds
    for p, period in enumerate([0.002, 0.005, 0.013]):
        t = 0.01 + p * 0.0003
        n = 0
        while t < dur and n < 40000:
            if r.random() < 0.5:
                e = [["find", 0x1111, 0xFFFF, 0xFF, 0xFFFFFFFF, 3]]
            else:
                e = [["sub", 0x1111, 1, 1, 1, 3, 0, [["ep", 4, f"10.0.0.{11 + p}", 17, 4000]]]]
            if r.random() < 0.0005:
                ops.append({"k": "preboot", "t": round(t, 6), "p": p})  # the peer restarts: our own counters towards it must not care
            ops.append({"k": "sd", "t": round(t, 6), "p": p, "ch": "u", "e": e})
            t += period
            n += 1
    for j in range(r.randint(0, 40)):
        ops.append({"k": "call", "t": round(r.uniform(0, dur), 6), "f": "send_sd", "a": [[], r.choice([None, 0, 1, 2])]})
    return {"engine": "single", "property": ID, "class": "traffic", "seed": seed, "cfg": cfg, "ops": ops, "until": dur}


NSVC = {"svc": 0x4321, "inst": 1, "major": 1, "minor": 0, "methods": {},
        "eventgroups": [{"id": 1, "interval": 0.001, "values": {"1": "aa", "2": "bb"}}, {"id": 2, "interval": 0.007, "values": {"16": "cc"}}]}


def gen_notify(seed, idx):
    """a SimpleService with 1 ms cyclic notifications (2 events) to 2-3 subscribers that join at
    different moments: each destination's counter wraps at another instant"""
    r = rng(seed, ID, "notify", idx)
    dur = 36.0
    cfg = {
        "service": NSVC,
        "resolver": [0.0, r.choice([0.0, 0.0005])],
        "timings": {"INITIAL_DELAY_MIN": 0, "INITIAL_DELAY_MAX": 0, "REPETITIONS_MAX": 0, "CYCLIC_OFFER_DELAY": 1000, "SEND_COLLECTION_TIMEOUT": 0, "SUBSCRIBE_REFRESH_INTERVAL": None},
        "max_iterations": 5000000,
    }
    ops = [{"k": "call", "t": 0.0, "f": "start", "a": []}]
    for p in range(r.randint(2, 3)):
        t = round(0.01 + p * r.uniform(0.0, 3.0), 6)
        ops.append({"k": "sd", "t": t, "p": p, "ch": "u", "e": [["sub", 0x4321, 1, 1, 1, 0xFFFFFF, 0, [["ep", 4, f"10.0.0.{11 + p}", 17, 4000]]]]})
        if p == 0 or r.random() < 0.5:
            # the same endpoint also subscribes to the second eventgroup: one destination, one counter
            ops.append({"k": "sd", "t": round(t + r.uniform(0.0, 1.0), 6), "p": p, "ch": "u", "e": [["sub", 0x4321, 1, 1, 2, 0xFFFFFF, 0, [["ep", 4, f"10.0.0.{11 + p}", 17, 4000]]]]})
    for j in range(r.randint(0, 20)):
        ops.append({"k": "call", "t": round(r.uniform(0.1, dur), 6), "f": "notify_once", "a": [1, r.choice([[1], [2], [1, 2]])]})
    return {"engine": "svc", "property": ID, "class": "notify", "seed": seed, "cfg": cfg, "ops": ops, "until": dur}


def gen_many(seed, idx):
    """many destinations, few messages each: the table of outgoing counters must keep every one of them"""
    r = rng(seed, ID, "many", idx)
    nd = r.choice([60, 64, 65, 66, 70, 100, 300])
    dests = []
    for j in range(nd):
        if dests and r.random() < 0.2:
            # another SD endpoint on a host that is a destination already: its own counter
            h, prt = r.choice(dests)
            dests.append([h, prt + 1 + j])
        else:
            dests.append([f"10.{1 + j // 200}.{r.randrange(4)}.{1 + j % 200}", r.choice([30490, 30490, 30491, 40000 + j])])
    ops = [{"k": "call", "t": 0.0, "f": "start", "a": []}]
    t = 0.01
    first = r.choice([None, 0, 1])
    ops.append({"k": "call", "t": t, "f": "send_burst", "a": [[OFFER], first, r.randint(1, 9)]})
    contacted = []
    for d in dests:
        t = round(t + 0.001, 6)
        ops.append({"k": "call", "t": t, "f": "send_burst", "a": [[OFFER], d, r.choice([1, 1, 2, 5])]})
        contacted.append(d)
        u = r.random()
        if u < 0.15:
            ops.append({"k": "call", "t": t, "f": "send_burst", "a": [[OFFER], r.choice(contacted[:8] + [first, None]), r.randint(1, 3)]})
        elif u < 0.2:
            ops.append({"k": "call", "t": t, "f": "send_burst", "a": [[], r.choice(contacted), 1]})
    big = r.random() < 0.4
    crowd = r.random() < 0.3
    for q in range(r.randint(5, 40)):
        t = round(t + 0.001, 6)
        ops.append({"k": "call", "t": t, "f": "send_burst", "a": [[OFFER], r.choice(contacted[:10] + contacted + [first, None, 2]), r.randint(1, 3)]})
        if big and q % 7 == 3:
            # one SD message with many entries (with and without options): still one message, one session id
            m = r.choice([50, 60, 87, 100, 130])
            ents = [["offer", 0x2000 + e, 1, 1, 0, 3, [["ep", 4, "10.0.0.1", 17, 30500 + e % 3]]] if r.random() < 0.7 else ["find", 0x3000 + e, 0xFFFF, 0xFF, 0xFFFFFFFF, 3] for e in range(m)]
            ops.append({"k": "call", "t": t, "f": "send_burst", "a": [ents, r.choice(contacted[:5] + [first, None]), r.randint(1, 2)]})
        if crowd and q == 2:
            # meanwhile a crowd of senders is heard: what the stack receives has no bearing on its outgoing counters
            for j in range(r.choice([260, 520, 700])):
                ops.append({"k": "sd", "t": round(t + j * 0.00001, 9), "p": j % 4, "ch": "um"[(j // 4) % 2], "port": 43000 + j // 8, "e": [["find", 0x7777, 0xFFFF, 0xFF, 0xFFFFFFFF, 3]]})
            t = round(t + 0.01, 6)
    cfg = {"timings": {"SUBSCRIBE_REFRESH_INTERVAL": None, "INITIAL_DELAY_MIN": 0, "INITIAL_DELAY_MAX": 0, "REPETITIONS_MAX": 0}}
    return {"engine": "single", "property": ID, "class": "many", "seed": seed, "cfg": cfg, "ops": ops, "until": round(t + 1.0, 6)}


def gen_notify_race(seed, idx):
    """the C17 workload (explicit and cyclic rounds, seeded resolver latency, further subscriptions of an endpoint that is
    already served, counters, second eventgroup), judged here for the per-destination id sequence on the wire only"""
    from . import c17

    plan = c17.gen(seed, idx * 10 + 9 if idx % 2 else idx * 10 + 1, "quick")
    plan["property"] = ID
    plan["class"] = "notify-race"
    return plan


def gen(seed, idx, tier):
    # every 51st plan is one of the long soak runs (51 and the 16 workers are coprime: they spread evenly)
    if idx % HEAVY_EVERY:
        j = idx - idx // HEAVY_EVERY - 1
        return gen_many(seed, j // 2) if j % 2 == 0 else gen_notify_race(seed, j // 2)
    idx //= HEAVY_EVERY
    k = idx % 8
    if k == 3:
        return gen_traffic(seed, idx // 4)
    if k == 7:
        return gen_notify(seed, idx // 8)
    return gen_walk(seed, idx)


def check_notify(plan, res):
    from models.notify import NotifyOracle
    from sim.svc import SVC_ADDR

    o = NotifyOracle(plan["cfg"]["service"], plan["cfg"].get("resolver"), SVC_ADDR).walk(res.log)
    viol = [("NOTIFY-SEQUENCE", d) for r, d in o.violations if r == "SESSION-PER-DEST"][:20]
    wraps = sum(1 for d, n in o.session.count.items() if n > 0xFFFF)
    probes = {"messages_judged": o.nmsg, "wraps_crossed": wraps, "destinations": len(o.session.count)}
    for rec in res.swallowed:
        viol.append(("NOTIFY-SEQUENCE", {"msg": f"{rec[2]} in a notification task at {rec[0]:.6f}", "context": f"task-raised:{rec[2]}"}))
    nontrivial = wraps > 0 if plan.get("class") != "notify-race" else o.nmsg > 0
    return {"violations": viol[:20], "nontrivial": nontrivial, "probes": probes, "states": set(), "foreign": bool(res.loop_exc or res.op_exc)}


def check(plan, res):
    if plan["engine"] == "svc":
        return check_notify(plan, res)
    model = OutgoingModel()
    viol = []
    probes = {"messages_judged": 0, "empty_sends": 0}
    nonsd = 0
    for seq, it, T, actor, kind, data in res.log:
        if kind != "tx":
            continue
        src, dst, payload = data
        msgs, err = refdec.split_datagram(payload)
        for m in msgs:
            if not refdec.is_sd_header(m):
                nonsd += 1
                continue
            try:
                sdm = refdec.dec_sd(m.payload)
            except refdec.RefError:
                viol.append(("SEQUENCE", {"msg": "undecodable SD message sent", "context": "undecodable"}))
                continue
            flag, sid = model.expect(dst)
            probes["messages_judged"] += 1
            n = model.count[dst]
            if not sdm.entries:
                viol.append(("EMPTY", {"msg": f"SD message without entries sent to {dst[0]}", "context": "empty-message"}))
            if m.session != sid:
                where = "at-wrap" if n in (0xFFFF, 0x10000, 2 * 0xFFFF, 2 * 0xFFFF + 1) else "zero" if m.session == 0 else "mid-sequence"
                viol.append(("SEQUENCE", {"msg": f"message #{n} to {dst[0]} carries session id {m.session:#x}, expected {sid:#x}", "context": where}))
                # resynchronise so that one slip is one violation
                model.count[dst] = (m.session - 1) % 0xFFFF + (0xFFFF if n > 0xFFFF else 0) + 1 if m.session else n
            if sdm.reboot != flag:
                viol.append(("FLAG", {"msg": f"message #{n} to {dst[0]} has reboot flag {sdm.reboot}, expected {flag}", "context": "set-after-wrap" if sdm.reboot else "clear-before-wrap"}))
    for op in plan["ops"]:
        if op["k"] == "call" and op["f"] in ("send_burst", "send_sd") and not op["a"][0]:
            probes["empty_sends"] += op["a"][2] if op["f"] == "send_burst" else 1
    wraps = sum(1 for d, n in model.count.items() if n > 0xFFFF)
    probes["wraps_crossed"] = wraps
    probes["second_wrap"] = sum(1 for d, n in model.count.items() if n > 2 * 0xFFFF)
    probes["destinations"] = len(model.count)
    foreign = False
    for idx, f, exc in res.op_exc:
        if f in ("send_burst", "send_sd"):
            viol.append(("SEQUENCE", {"msg": f"sending raised {type(exc).__name__}: {exc}", "context": f"send-raised:{type(exc).__name__}"}))
        else:
            foreign = True
    for rec in list(res.loop_exc) + list(res.swallowed):
        if rec[2] == "error":  # struct.error: a session id that does not fit its field
            viol.append(("SEQUENCE", {"msg": f"sending raised {rec[2]} at {rec[0]:.6f}", "context": "send-raised:error"}))
        else:
            foreign = True
    states = {hash((d[0], min(n, 3 * 0xFFFF) // 0x4000)) & 0xFFFFFFFFFFFF for d, n in model.count.items()}
    nontrivial = wraps > 0 if plan.get("class") != "many" else len(model.count) >= 65
    if plan.get("class") == "many":
        probes["more_than_64_destinations"] = int(len(model.count) > 64)
    return {"violations": viol[:20], "nontrivial": nontrivial, "probes": probes, "states": states, "foreign": foreign}


def site(rule, plan, detail):
    return detail.get("context", "general")
