"""Plan builders shared by the single-engine property modules: a cursor in
virtual time, deadline bookkeeping (so that ops can be placed at, just before
and just after the deadlines the library will compute), op emitters."""
from sim.core import RES

INF_TTL = 0xFFFFFF


def ep(p, port=4000):
    return ["ep", 4, f"10.0.0.{11 + p}", 17, port]


class Builder:
    GAP = 0.05

    def __init__(self):
        self.ops = []
        self.t = 0.1
        self.deadlines = []
        self.same = False
        self.last_t = None
        self.phase = "io"

    def _now(self):
        """instant of the op being emitted ('same' glues it to the previous op)"""
        if self.same and self.last_t is not None:
            self.t = self.last_t
        self.same = False
        return self.t

    def _adv(self):
        self.last_t = self.t
        self.t = round(self.t + self.GAP, 9)

    def sd(self, p, ch, entries, **kw):
        self._now()
        op = {"k": "sd", "t": self.t, "p": p, "ch": ch, "e": entries}
        op.update(kw)
        self.ops.append(op)
        for e in list(entries) + list(kw.get("e2", [])):
            if e[0] in ("offer", "sub") and e[5] not in (0, INF_TTL):
                self.deadlines.append(self.t + e[5])
        self._adv()

    def offer(self, p, key, ttl, ch="m", extra=None, opts=None, second=None, pre=None):
        e = ["offer", key[0], key[1], key[2], key[3], ttl]
        if opts:
            e.append(opts)
        if second:
            self.sd(p, ch, (pre or []) + [e] + (extra or []), e2=second)
        else:
            self.sd(p, ch, (pre or []) + [e] + (extra or []))

    def find(self, p, ch="m", key=(0x7777, 0xFFFF, 0xFF, 0xFFFFFFFF)):
        self.sd(p, ch, [["find", key[0], key[1], key[2], key[3], 3]])

    def sub(self, p, ids, eg, ttl, counter=0, ch="u", eps=None, extra=None, second=None, pre=None):
        e = ["sub", ids[0], ids[1], ids[2], eg, ttl, counter, eps if eps is not None else [ep(p)]]
        if second:
            self.sd(p, ch, (pre or []) + [e] + (extra or []), e2=second)
        else:
            self.sd(p, ch, (pre or []) + [e] + (extra or []))

    def preboot(self, p):
        self._now()
        self.ops.append({"k": "preboot", "t": self.t, "p": p})

    def call(self, f, a=()):
        self._now()
        op = {"k": "call", "t": self.t, "f": f, "a": list(a)}
        if self.phase != "io":
            op["ph"] = self.phase
        self.ops.append(op)
        self._adv()

    def at0(self, f, a=()):
        self.ops.append({"k": "call", "t": 0.0, "f": f, "a": list(a)})

    def next_deadline(self):
        later = [d for d in self.deadlines if d > self.t - 1e-9]
        return min(later) if later else None

    def advance(self, dt):
        self.t = round(self.t + dt, 9)
        self.same = False

    def to_deadline(self, off):
        d = self.next_deadline()
        self.t = round(self.t + 0.3, 9) if d is None else d + off
        self.same = False

    def busy_over_deadline(self):
        d = self.next_deadline()
        if d is None:
            self.t = round(self.t + 0.3, 9)
            return
        self.ops.append({"k": "busy", "t": d - 0.001, "d": 0.002})
        self.t = d + 0.0005
        self.same = False

    def time_symbol(self, k):
        """0: +0.3s  1..5: next deadline -100us / -res/4 / exact / +res/4 / +100us  6: busy across it  7: same instant"""
        if k == 0:
            self.advance(0.3)
        elif k == 1:
            self.to_deadline(-1e-4)
        elif k == 2:
            self.to_deadline(-RES / 4)
        elif k == 3:
            self.to_deadline(0.0)
        elif k == 4:
            self.to_deadline(RES / 4)
        elif k == 5:
            self.to_deadline(1e-4)
        elif k == 6:
            self.busy_over_deadline()
        elif k == 7:
            self.same = True

    def random_time(self, r):
        u = r.random()
        if u < 0.25:
            self.same = True
        elif u < 0.35:
            self.advance(1e-4)
        elif u < 0.70:
            self.advance(round(r.uniform(0, 1.5), 6))
        elif u < 0.95:
            self.to_deadline(r.choice([-1e-4, -RES / 4, 0.0, RES / 4, 1e-4]))
        else:
            self.busy_over_deadline()
        self.phase = r.choice(["io", "io", "io", "timer", "late"])

    def until(self, slack=1.0):
        return round(max([self.t] + self.deadlines) + slack, 6)


def decode_index(i, nsym):
    """i-th history of the sweep: lengths 1,2,... in turn"""
    L = 1
    while i >= nsym**L:
        i -= nsym**L
        L += 1
    syms = []
    for _ in range(L):
        syms.append(i % nsym)
        i //= nsym
    return syms


def sweep_count(nsym, L):
    return sum(nsym**k for k in range(1, L + 1))
