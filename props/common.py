"""shared by the per-property modules"""
import random

COMPONENTS = {
    "real": [
        "someip.header (codecs)",
        "someip.config",
        "someip.sd (ServiceDiscoveryProtocol, ServiceDiscover, ServiceSubscriber, ServiceAnnouncer, ServiceInstance, TimedStore, SendCollector, _SessionStorage, DatagramProtocolAdapter)",
        "someip.utils",
        "asyncio Task / Future / Handle / TimerHandle / Event / gather / sleep (CPython 3.12)",
    ],
    "simulated": [
        "event loop core (SimLoop: virtual clock, I/O phase before timer phase, timers in (deadline, order) order)",
        "datagram transports and network (SimTransport / Sim)",
        "random.uniform (seeded, boundary-biased)",
        "loop.getaddrinfo (virtual latency)",
        "listeners and method handlers (recording doubles)",
        "rogue peers (scripted datagrams from the reference encoder, real session counters)",
    ],
    "not_exercised": ["socket creation and options (create_endpoints)", "executor thread pool", "Windows code paths", "_SessionStorage.outgoing_lock under real threads"],
}

ASSUMPTIONS = [
    "asyncio guarantees kept by the simulator and relied on by correct code: FIFO call_soon, I/O before timers in one iteration, timers in deadline order, one datagram per socket per iteration",
    "the reference decoder (sim/refdec.py) is the judge of what crossed the network; it was written from the wire format",
    "timing tolerance: clock resolution 1 us, plus any injected busy period covering the instant",
]


def rng(seed, *stream):
    return random.Random(f"{seed}/{'/'.join(map(str, stream))}")


def site_from_detail(rule, plan, detail):
    ctx = detail.get("context") if isinstance(detail, dict) else None
    return ctx or "general"


def add_send_errors(cfg, seed, pid, idx, p=0.15, horizon=4.0):
    """engine `single`: with probability p a window in which sendto() of the node fails and is reported through
    error_received() (NetFaults.send_error). Drawn from a stream of its own, after the plan is complete, so that the
    plan is otherwise what it was without the fault. The transmission is recorded before it fails: oracles that judge
    what the library hands to its transport are not affected by the fault as such."""
    r2 = rng(seed, pid, idx, "senderr")
    if r2.random() < p:
        t0 = round(r2.choice([0.0, r2.uniform(0.0, horizon)]), 3)
        cfg["send_errors"] = [{"t0": t0, "t1": round(t0 + r2.choice([0.05, 0.5, 3.0, 10.0]), 3), "rate": r2.choice([0.3, 1.0])}]
