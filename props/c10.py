"""C10 — offer lifecycle: wait, repetition and cyclic phases; nothing follows a StopOffer."""
from models.announce import AnnounceOracle
from .announce_gen import gen_plan
from .common import COMPONENTS, ASSUMPTIONS  # noqa: F401

ID = "C10"
LEVEL = "exploration"
MINIMISE_S = 8.0
RULES = {
    "FIRST-IN-WINDOW": "the first offer after a start leaves within [start+INITIAL_DELAY_MIN, start+INITIAL_DELAY_MAX+collection timeout]",
    "REPETITION-DOUBLING": "repetition k follows after 2^k x base delay (queue time; transmission at most one collection timeout later)",
    "CYCLIC-PERIOD": "after the repetitions, offers follow at the cyclic period; a non-cyclic instance offers no more",
    "OFFER-CONTENT": "every offer names the instance's ids, minor version, configured TTL and options; multicast offers go to the group",
    "ONE-STOPOFFER": "a stop after an offer produces exactly one TTL-0 offer to the group within the collection timeout",
    "SILENT-STOP": "a cyclic instance stopped before its first offer sends nothing",
    "NO-OFFER-AFTER-STOP": "once the StopOffer left the transport no offer with TTL>0 for the instance is sent to anyone until it is started again",
    "STOP-NO-ERROR": "stopping a stopped announcer, protocol stop followed by connection loss, and the simple-service helper's stop return without raising",
}
RULE_TEXT = (
    "random plans: 1-3 instances (one may be non-cyclic), timing configuration drawn per run (initial window incl. min=max and 0, 0-4 "
    "repetitions, three base delays, cyclic period or none, TTL finite/infinite, collection timeout 0/5/50 ms, forced uniform extremes), "
    "1-7 operations (announcer/protocol/instance stop and start, helper start/stop, connection loss, FindService by unicast/multicast, busy "
    "periods) placed at +-100us, +-res/4 and exactly at the timer deadlines and transmission instants of the run so far. non-trivial = at "
    "least one offer was judged; distinct = interleaving signature"
)
PROBES = [
    "stop_before_first_offer",
    "stop_with_first_offer_in_collector",
    "stop_with_delayed_find_answer_pending",
    "find_just_after_stop",
    "first_offer_min_eq_max",
    "find_answered_multicast",
]
RUNS = {"quick": 24000, "thorough": 2000000}
PROFILE = {"stop": 2.0, "find": 1.2, "helper": 0.15}
MY_RULES = set(RULES)


def budget(tier):
    return RUNS[tier], {"quick": 150, "thorough": 1800}[tier]


def directed(i):
    """fixed plans that are always part of a run (the helper path of the property text)"""
    from .announce_gen import HELPER, POOL

    t = {"INITIAL_DELAY_MIN": 0.0, "INITIAL_DELAY_MAX": 0.0, "REPETITIONS_MAX": 1, "REPETITIONS_BASE_DELAY": 0.1, "CYCLIC_OFFER_DELAY": 1, "SUBSCRIBE_REFRESH_INTERVAL": None}
    ops = [{"k": "call", "t": 0.0, "f": "start", "a": []}, {"k": "call", "t": 0.1, "f": "helper_start_announce", "a": []}]
    if i == 0:
        ops.append({"k": "call", "t": 1.5, "f": "helper_stop_announce", "a": []})
    elif i == 1:
        ops = [{"k": "call", "t": 0.0, "f": "announce", "a": [0]}] + ops[:1] + [{"k": "call", "t": 1.5, "f": "ann_stop", "a": []}, {"k": "call", "t": 1.6, "f": "ann_stop", "a": []}]
    else:
        ops = [{"k": "call", "t": 0.0, "f": "announce", "a": [0]}] + ops[:1] + [{"k": "call", "t": 1.5, "f": "stop", "a": []}, {"k": "call", "t": 1.6, "f": "conn_lost", "a": []}]
    return {"engine": "single", "property": ID, "class": "directed", "seed": 0, "cfg": {"instances": [POOL[0]], "timings": t, "helper": HELPER}, "ops": ops, "until": 4.0}


NDIRECTED = 3


def gen(seed, idx, tier):
    if idx < NDIRECTED:
        return directed(idx)
    return gen_plan(ID, seed, idx, PROFILE)


def check(plan, res):
    o = AnnounceOracle(plan["cfg"]["instances"], plan["cfg"]["timings"], helper=plan["cfg"].get("helper")).walk(res.log)
    v = [(r, d) for r, d in o.violations if r in MY_RULES]
    # an exception that reaches the loop (or is swallowed by log_exceptions) in the very
    # instant of a stop-family call is that call failing: connection_lost() runs its parts deferred
    stop_times = {e[2] for e in res.log if e[4] == "op" and e[5][2] in ("stop", "ann_stop", "conn_lost", "stop_announce", "helper_stop_announce")}
    foreign = False
    for rec in list(res.loop_exc) + list(res.swallowed):
        T, tag, name = rec[0], rec[1], rec[2]
        if T in stop_times:
            from sim.core import _where

            v.append(("STOP-NO-ERROR", {"msg": f"{name} raised in a callback of the stop at {T:.6f}", "context": f"callback:{name}:{_where(rec[4])}"}))
        else:
            foreign = True
    return {"violations": v, "nontrivial": o.noffers > 0, "probes": o.probes, "states": o.states, "foreign": foreign}


def site(rule, plan, detail):
    return detail.get("context", "general")
