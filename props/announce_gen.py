"""Plan generator shared by C10 / C12 / C15: announcer timelines with ops placed
at, just before and just after the instants the library itself scheduled
(found by running the plan-so-far: every timer deadline and every
transmission instant is a candidate)."""
from sim import single
from sim.core import RES
from .common import rng

POOL = [
    {"svc": 0x1111, "inst": 1, "major": 1, "minor": 0, "egs": [1], "opts": [["ep", 4, "10.0.0.1", 17, 30501]]},
    {"svc": 0x1111, "inst": 2, "major": 1, "minor": 7, "egs": []},
    {"svc": 0x2222, "inst": 1, "major": 2, "minor": 0, "egs": [1]},
    {"svc": 0x1111, "inst": 1, "major": 2, "minor": 5, "egs": []},  # same service and instance id as the first, another version
    # a run of two options whose first equals the single option of the first instance
    {"svc": 0x3333, "inst": 4, "major": 1, "minor": 0, "egs": [], "opts": [["ep", 4, "10.0.0.1", 17, 30501], ["ep", 4, "10.0.0.1", 6, 30501]]},
    # configured without a minor version (the library's default 0xFFFFFFFF is its concrete minor version on the wire)
    {"svc": 0x4444, "inst": 1, "major": 1, "minor": 0xFFFFFFFF, "egs": []},
]
HELPER = {"svc": 0x5555, "inst": 3, "major": 1, "minor": 2, "opts": [["ep", 4, "10.0.0.1", 17, 30500]]}
INF_TTL = 0xFFFFFF
OFFS = [-1e-4, -RES / 4, 0.0, RES / 4, 1e-4]


def draw_timings(r):
    lo, hi = r.choice([(0.0, 0.0), (0.1, 0.1), (0.0, 0.5), (0.2, 1.0)])
    rlo, rhi = r.choice([(0.01, 0.05), (0.02, 0.02), (0.0, 0.0), (0.0, 0.1)])
    return {
        "INITIAL_DELAY_MIN": lo,
        "INITIAL_DELAY_MAX": hi,
        "REPETITIONS_MAX": r.randint(0, 4),
        "REPETITIONS_BASE_DELAY": r.choice([0.01, 0.1, 0.002]),
        "CYCLIC_OFFER_DELAY": r.choice([0, 0.5, 1, 2]),
        "ANNOUNCE_TTL": r.choice([3, 3, INF_TTL, 1]),  # 1: shorter than some cyclic periods (legal, the library only warns)
        "SEND_COLLECTION_TIMEOUT": r.choice([0, 0.005, 0.005, 0.05]),
        "REQUEST_RESPONSE_DELAY_MIN": rlo,
        "REQUEST_RESPONSE_DELAY_MAX": rhi,
        "SUBSCRIBE_REFRESH_INTERVAL": None,
    }


def find_spec(r, ins):
    svc = ins["svc"] if r.random() < 0.9 else 0x7777
    # exact, wildcard, near miss, and the other fields' wildcard values (legal, concrete ids here)
    inst = r.choice([ins["inst"], 0xFFFF, ins["inst"], ins["inst"] + 1, 0x00FF, 0xFFFE])
    major = r.choice([ins["major"], 0xFF, ins["major"], ins["major"] + 1, 0xFE])
    minor = r.choice([ins["minor"], 0xFFFFFFFF, ins["minor"], (ins["minor"] + 1) & 0xFFFFFFFF, 0xFF, 0xFFFF, 0xFFFFFFFE, 3])
    return ["find", svc, inst, major, minor, 3]


def instants(plan, horizon):
    p = dict(plan, until=horizon, cfg=dict(plan["cfg"], trace_timers=True))
    res = single.execute(p)
    ts = set(res.timer_log or ())
    for e in res.log:
        if e[4] == "tx":
            ts.add(e[2])
    return sorted(t for t in ts if 0 < t < horizon)


def pick_time(r, inst_list, tmin, horizon):
    later = [t for t in inst_list if t >= tmin]
    if later and r.random() < 0.7:
        t = r.choice(later[: 12]) + r.choice(OFFS)
        return max(t, tmin)
    return round(r.uniform(tmin, min(horizon, tmin + 2.0)), 6)


def gen_plan(pid, seed, idx, profile):
    """profile: weights for op kinds: dict(stop=, find=, queue=, helper=)"""
    r = rng(seed, pid, idx)
    timings = draw_timings(r)
    n = r.randint(1, 3)
    insts = [dict(POOL[i]) for i in r.sample(range(len(POOL)), n)]
    if r.random() < 0.25 and n > 1:
        insts[-1]["timings"] = {"CYCLIC_OFFER_DELAY": 0 if timings["CYCLIC_OFFER_DELAY"] else 1}
    cfg = {"instances": insts, "timings": timings, "sock_flip": r.choice([0, 0.5, 1.0])}
    if r.random() < 0.15:
        # the timings were different while the stack was constructed and were set to these values afterwards, before
        # anything was started: what counts is the value when it is used
        cfg["ctor_timings"] = {"SEND_COLLECTION_TIMEOUT": r.choice([0, 0.005, 0.05, 0.2]), "CYCLIC_OFFER_DELAY": r.choice([0, 0.5, 2]), "REQUEST_RESPONSE_DELAY_MAX": r.choice([0.0, 0.1])}
        if cfg["ctor_timings"]["REQUEST_RESPONSE_DELAY_MAX"] < timings["REQUEST_RESPONSE_DELAY_MIN"]:
            del cfg["ctor_timings"]["REQUEST_RESPONSE_DELAY_MAX"]
    u = r.random()
    if u < 0.2:
        cfg["uniform"] = [0.0]
    elif u < 0.4:
        cfg["uniform"] = [1.0]
    if r.random() < 0.15:
        # a second SD stack lives in the same process (10.0.0.5): its own short-period offers and answers, own queues
        cfg["neighbour"] = {"timings": {"INITIAL_DELAY_MIN": 0.0, "INITIAL_DELAY_MAX": 0.1, "REPETITIONS_MAX": 2, "REPETITIONS_BASE_DELAY": 0.03, "CYCLIC_OFFER_DELAY": r.choice([0.11, 0.37]),
                                        "SEND_COLLECTION_TIMEOUT": timings["SEND_COLLECTION_TIMEOUT"], "SUBSCRIBE_REFRESH_INTERVAL": None}, "start_at": r.choice([0.0, 0.3])}
        if r.random() < 0.5:
            # ... and what it offers has the ids of one of the node's own instances, on another endpoint
            cfg["neighbour"].update({"svc": [0x1111, 1, 1, 0], "opts": [["ep", 4, "10.0.0.5", 17, 30509]], "start_at": 0.0})
    use_helper = r.random() < profile.get("helper", 0)
    if use_helper:
        cfg["helper"] = HELPER
    if profile.get("queue"):
        cfg["wrap"] = ["queue_send"]
    ops = []
    for i in range(n):
        if r.random() < 0.85:
            ops.append({"k": "call", "t": 0.0, "f": "announce", "a": [i]})
    if use_helper and r.random() < 0.7:
        ops.append({"k": "call", "t": 0.0, "f": "helper_start_announce", "a": []})
    ops.append({"k": "call", "t": 0.0, "f": "start", "a": []})
    plan = {"engine": "single", "property": pid, "class": "random", "seed": seed, "cfg": cfg, "ops": ops, "until": 8.0}
    horizon = 6.0
    nops = r.randint(1, 7)
    t = 0.0
    weights = [("stop", profile.get("stop", 1)), ("find", profile.get("find", 1)), ("queue", profile.get("queue", 0)), ("busy", 0.3)]
    tot = sum(w for _, w in weights)
    aligned = r.random() < 0.8
    inst_list = instants(plan, horizon) if aligned else []
    for j in range(nops):
        t = pick_time(r, inst_list, t, horizon)
        x = r.random() * tot
        kind = None
        for name, w in weights:
            if x < w:
                kind = name
                break
            x -= w
        ph = r.choice(["io", "io", "timer", "late"])
        disturbed = False
        if kind == "stop":
            f = r.choice(["ann_stop", "ann_start", "ann_stop", "ann_start", "stop_announce", "announce", "stop", "start", "conn_lost"] + (["helper_stop_announce", "helper_start_announce"] if use_helper else []))
            if f == "conn_lost" and j < nops - 1:
                f = "ann_stop"
            a = [r.randrange(n)] if f in ("stop_announce", "announce") else []
            op = {"k": "call", "t": t, "f": f, "a": a}
            if ph != "io":
                op["ph"] = ph
            ops.append(op)
            disturbed = True
        elif kind == "find" and r.random() < 0.25:
            # several requesters ask within one collection window, then the instance is stopped:
            # every pending answer must still leave before the StopOffer
            ins = r.choice(insts)
            tt = t
            peers = r.sample(range(3), r.randint(2, 3))
            if r.random() < 0.4:
                peers = [peers[0], peers[0]] + peers[1:]  # two requests of one requester pending at once
            for p in peers:
                ops.append({"k": "sd", "t": round(tt, 9), "p": p, "ch": r.choice("uuum"), "e": [["find", ins["svc"], r.choice([ins["inst"], 0xFFFF]), 0xFF, 0xFFFFFFFF, 3]]})
                tt += r.choice([0.0, 0.0005, 0.002])
            ops.append({"k": "call", "t": round(tt + r.choice([0.0, 0.001, 0.004, 0.03]), 9), "f": r.choice(["ann_stop", "stop_announce", "stop"]), "a": [insts.index(ins)] if False else []})
            if ops[-1]["f"] == "stop_announce":
                ops[-1]["a"] = [insts.index(ins)]
            t = ops[-1]["t"]
            disturbed = True
        elif kind == "find" and r.random() < 0.12:
            # a request is pending (request-response delay, collection window) while the instance it matches is stopped
            # and started again: the new incarnation is not ready before its own first offer
            i = r.randrange(n)
            ins = insts[i]
            ops.append({"k": "sd", "t": round(t, 9), "p": r.randrange(3), "ch": r.choice("mmu"), "e": [["find", ins["svc"], r.choice([ins["inst"], 0xFFFF]), 0xFF, 0xFFFFFFFF, 3]]})
            tt = t + r.choice([0.0, 0.001, 0.004, 0.02, 0.04])
            f1, f2 = r.choice([("stop_announce", "announce"), ("ann_stop", "ann_start"), ("stop", "start")])
            ops.append({"k": "call", "t": round(tt, 9), "f": f1, "a": [i] if f1 == "stop_announce" else []})
            tt += r.choice([0.0, 0.0, 0.001, 0.01])
            ops.append({"k": "call", "t": round(tt, 9), "f": f2, "a": [i] if f2 == "announce" else []})
            t = tt
            disturbed = True
        elif kind == "find" and r.random() < 0.2:
            # a requester restarts (or its datagrams are reordered) while an answer to it is pending: the answer to the
            # earlier request, the answer to the request that reveals the reboot and every later one are still owed
            ins = r.choice(insts)
            p = r.randrange(3)
            ch = r.choice("uuum")
            tt = t
            ops.append({"k": "sd", "t": round(tt, 9), "p": p, "ch": ch, "e": [find_spec(r, ins)]})
            tt += r.choice([0.0, 0.0005, 0.002, 0.01, 0.04])
            if r.random() < 0.6:
                ops.append({"k": "preboot", "t": round(tt, 9), "p": p})
                ops.append({"k": "sd", "t": round(tt, 9), "p": p, "ch": ch, "e": [find_spec(r, ins)]})
            else:
                # session ids 6, then 5: the second looks like a restart (or is a reordered datagram)
                ops[-1]["sess"] = [1, 6]
                ops.append({"k": "sd", "t": round(tt, 9), "p": p, "ch": ch, "sess": [1, 5], "e": [find_spec(r, ins)]})
            for _ in range(r.randint(0, 2)):
                tt += r.choice([0.0005, 0.01, 0.2, 1.0])
                ops.append({"k": "sd", "t": round(tt, 9), "p": p, "ch": ch, "e": [["find", ins["svc"], 0xFFFF, 0xFF, 0xFFFFFFFF, 3]]})
            t = tt
            disturbed = True
        elif kind == "find":
            ins = r.choice(insts + ([HELPER] if use_helper else []))
            ch = r.choice("um")
            ents = [find_spec(r, ins)]
            if r.random() < 0.15:
                ents.append(find_spec(r, r.choice(insts)))
            elif r.random() < 0.2 and len(insts) > 1:
                # one message asks for every instance of the node by its exact ids: the answers (and their option runs,
                # which may overlap) share one SD message when a collection window is open
                order = list(insts) if r.random() < 0.5 else list(reversed(insts))
                ents = [["find", i2["svc"], i2["inst"], i2["major"], i2["minor"], 3] for i2 in order]
            ops.append({"k": "sd", "t": t, "p": r.randrange(3), "ch": ch, "e": ents})
            disturbed = True
        elif kind == "queue":
            m = r.choice([1, 1, 2, 5, 17, 40, 60, 130])  # up to far more than fits a 1400-byte datagram
            dest = r.choice([None, 0, 1, 2, ["10.0.0.11", 30491], ["10.0.0.11", 30492]])  # incl. two more endpoints on peer 0's host
            if r.random() < 0.08:
                # first something for the group and for 70 other destinations (more than any table of "recent" peers holds)
                ops.append({"k": "call", "t": t, "f": "queue_send", "a": [["offer", 0x6100, 1, 1, 0, 3], None]})
                for d in range(70):
                    ops.append({"k": "call", "t": t, "f": "queue_send", "a": [["suback", 0x6100, 1, 1, 1 + d % 5, 3, d % 16], [f"10.0.3.{1 + d}", 30490]]})
                ops.append({"k": "call", "t": t, "f": "queue_send", "a": [["offer", 0x6101, 1, 1, 0, 3], None]})
            for q in range(m):
                spec = ["offer", 0x6000 + r.randrange(3), q + 1, 1, q, r.choice([0, 3])] if r.random() < 0.7 else ["suback", 0x6000, 1, 1, q + 1, 3, q % 16]
                if spec[0] == "offer" and m >= 40 and r.random() < 0.8:
                    spec.append([["ep", 4, "10.0.0.1", 17, 30500 + q % 2]])
                d2 = dest
                if q % 3 == 2 and isinstance(dest, (int, list)) and r.random() < 0.5:
                    d2 = r.choice([0, ["10.0.0.11", 30491]])  # interleave a second destination inside the same window
                op = {"k": "call", "t": t, "f": "queue_send", "a": [spec, d2]}
                if ph != "io":
                    op["ph"] = ph
                ops.append(op)
        else:
            ops.append({"k": "busy", "t": max(0.0, t - 0.001), "d": r.choice([0.002, 0.02])})
        if aligned and disturbed and j < nops - 1:
            inst_list = instants(plan, horizon)
    plan["until"] = round(max(8.0, t + 3.0), 6)
    # a window in which sendto() fails (the transport reports it through error_received() and returns): drawn from a
    # stream of its own, after everything else, so that the rest of the plan is what it was without the fault
    r2 = rng(seed, pid, idx, "senderr")
    if r2.random() < 0.2:
        t0 = round(r2.choice([0.0, r2.uniform(0.0, 4.0)]), 3)
        cfg["send_errors"] = [{"t0": t0, "t1": round(t0 + r2.choice([0.05, 0.5, 3.0, 10.0]), 3), "rate": r2.choice([0.3, 1.0])}]
    return plan
