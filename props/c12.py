"""C12 — FindService is answered only by matching, ready instances, by unicast, in time."""
from models.announce import AnnounceOracle
from .announce_gen import gen_plan
from .common import COMPONENTS, ASSUMPTIONS  # noqa: F401

ID = "C12"
LEVEL = "exploration"
MINIMISE_S = 8.0
RULES = {
    "ANSWER": "every unicast offer matches a pending FindService of its destination for that instance inside the timing window (unicast request: within the collection timeout; multicast request: request-response window + collection timeout); every FindService matching an instance whose first offer already left the transport is answered exactly once per entry; instances in their initial wait phase or stopped stay silent (between queueing and transmission of the first offer either is accepted)",
    "OFFER-CONTENT": "the answer carries the instance's ids, minor version, configured TTL and options",
}
RULE_TEXT = (
    "random plans as for C10 with a find-heavy mix: FindService entries over every wildcard combination of instance / major / minor (and "
    "near-miss ids), 1-2 entries per message, by unicast and multicast from 3 peers, at instants aligned with the offer lifecycle (initial "
    "wait, first offer queued / transmitted, repetitions, cyclic phase, just stopped, restarted), request-response windows incl. min=max "
    "and 0, collection timeouts 0/5/50 ms. non-trivial = at least one answer or one required-silence was judged; distinct = interleaving signature"
)
PROBES = [
    "find_answered_unicast",
    "find_answered_multicast",
    "find_during_initial_wait",
    "find_between_queue_and_transmission_of_first_offer",
    "find_just_after_stop",
    "stop_with_delayed_find_answer_pending",
]
RUNS = {"quick": 24000, "thorough": 2000000}
PROFILE = {"stop": 0.7, "find": 3.0, "helper": 0.0}
MY_RULES = set(RULES)


def budget(tier):
    return RUNS[tier], {"quick": 150, "thorough": 1800}[tier]


def gen(seed, idx, tier):
    return gen_plan(ID, seed, idx, PROFILE)


def check(plan, res):
    o = AnnounceOracle(plan["cfg"]["instances"], plan["cfg"]["timings"], helper=plan["cfg"].get("helper")).walk(res.log)
    v = [(r, d) for r, d in o.violations if r in MY_RULES and not (r == "OFFER-CONTENT" and not d["msg"].startswith("find answer"))]
    foreign = bool(res.loop_exc or res.swallowed or res.op_exc)
    nfinds = sum(o.probes.get(p, 0) for p in PROBES)
    return {"violations": v, "nontrivial": nfinds > 0, "probes": o.probes, "states": o.states, "foreign": foreign}


def site(rule, plan, detail):
    return detail.get("context", "general")
