"""C15 — queued SD entries are sent exactly once, in order, to the right peer, in time."""
from models.announce import AnnounceOracle
from .announce_gen import gen_plan
from .common import COMPONENTS, ASSUMPTIONS  # noqa: F401

ID = "C15"
LEVEL = "exploration"
MINIMISE_S = 8.0
RULES = {
    "EXACTLY-ONCE": "per destination the transmitted offer / stop-offer / acknowledgement entries are exactly the queued ones: none lost, none duplicated, none invented",
    "ORDER": "entries for one destination leave in the order queued",
    "DEST": "an entry leaves only in a message to the destination it was queued for; entries of different destinations never share a message",
    "DEADLINE": "each entry leaves no later than the collection timeout after it was queued (plus an injected busy period)",
    "ZERO-IMMEDIATE": "with a collection timeout of 0 each entry is sent at once in a message of its own",
}
RULE_TEXT = (
    "random plans as for C10 plus direct queue requests (bursts of 1, 2, 5, 17, 40 synthetic offer / stop-offer / ack entries for the group or "
    "one of 3 peers) placed at +-100us, +-res/4 and exactly at collector deadlines, also while the announcer is being stopped; every "
    "queue_send call is recorded by a wrapper on the announcer instance and matched with the decoded transmissions. non-trivial = at least "
    "one queued entry was matched; distinct = interleaving signature"
)
PROBES = ["sent_exactly_at_window_close", "find_answered_unicast", "stop_with_first_offer_in_collector", "queued_entries"]
RUNS = {"quick": 24000, "thorough": 2000000}
PROFILE = {"stop": 1.0, "find": 1.0, "queue": 2.0, "helper": 0.0}
MY_RULES = set(RULES)


def budget(tier):
    return RUNS[tier], {"quick": 150, "thorough": 1800}[tier]


def gen(seed, idx, tier):
    return gen_plan(ID, seed, idx, PROFILE)


def check(plan, res):
    o = AnnounceOracle(plan["cfg"]["instances"], plan["cfg"]["timings"], helper=plan["cfg"].get("helper")).walk(res.log)
    v = [(r, {"msg": m, "context": c}) for r, m, c in o.q_viol if r in MY_RULES]
    foreign = bool(res.loop_exc or res.swallowed or res.op_exc)
    probes = dict(o.probes)
    probes["queued_entries"] = o.nqueued
    return {"violations": v, "nontrivial": o.nqueued > 0, "probes": probes, "states": o.states, "foreign": foreign}


def site(rule, plan, detail):
    return detail.get("context", "general")
