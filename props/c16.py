"""C16 — method calls get exactly one correctly correlated reply."""
from sim import refdec
from sim.svc import SVC_ADDR
from .common import COMPONENTS, ASSUMPTIONS, rng  # noqa: F401

ID = "C16"
LEVEL = "exploration"
MINIMISE_S = 5.0
RULES = {
    "REPLY": "for each SOME/IP message received over unicast the replies sent before anything else is received are exactly the model's: at most one, to the sender only; RESPONSE (OK, handler payload, request ids and interface version) for a REQUEST to a registered method whose handler returns bytes; nothing for fire-and-forget or a handler returning nothing; otherwise one ERROR with empty payload, the request's ids, and the code of the first failing check (unknown service, wrong interface version, unknown method, wrong message type, wrong message type for a non-OK return code, malformed message)",
    "MCAST-SILENT": "messages received over multicast are never answered",
}
RULE_TEXT = (
    "requests arrive as datagrams (single, coalesced 2-4 per datagram, duplicated, with undecodable tails) at a SimpleService that is "
    "concurrently serving subscriptions and cyclic notifications: ids at and around the registered ones, every message type and return "
    "code, payloads 0..1400 bytes (boundary-biased), handlers returning bytes / empty bytes / nothing / rejecting, unicast and multicast, "
    "inputs failing several checks at once. The schedule adds little here (each message is handled synchronously); the simulation "
    "contributes the transport-level view and the interleaving with notification traffic. non-trivial = at least one reply or required "
    "silence was judged; distinct = distinct (failing-check pattern, message type, handler kind, channel) combinations"
)
PROBES = ["late_registration", "responses", "errors", "silent", "multicast_requests", "coalesced_datagrams", "several_checks_fail", "undecodable_tail"]
RUNS = {"quick": 12000, "thorough": 1500000}
SVC = {"svc": 0x4321, "inst": 1, "major": 2, "minor": 0, "methods": {"1": "echo", "2": "none", "3": "malformed", "4": "empty", "32768": "echo", "7": "echo-obj", "8": "malformed-sub"},
       "eventgroups": [{"id": 1, "interval": 0.05, "values": {"1": "aabb"}}]}
MTYPES = [0, 1, 2, 0x40, 0x41, 0x42, 0x80, 0x81, 0xC0, 0xC1]
TIMINGS = {"INITIAL_DELAY_MIN": 0, "INITIAL_DELAY_MAX": 0, "REPETITIONS_MAX": 0, "CYCLIC_OFFER_DELAY": 100, "SEND_COLLECTION_TIMEOUT": 0, "SUBSCRIBE_REFRESH_INTERVAL": None}


def budget(tier):
    return RUNS[tier], {"quick": 120, "thorough": 1500}[tier]


def rand_msg(r):
    u = r.random()
    svc = SVC["svc"] if u < 0.8 else r.choice([SVC["svc"] + 1, 0xFFFF, 0])
    iface = SVC["major"] if r.random() < 0.8 else r.choice([SVC["major"] + 1, 0, 0xFF])
    method = r.choice([1, 1, 2, 3, 4, 32768, 7, 8]) if r.random() < 0.75 else r.choice([5, 6, 5, 0, 0x7FFF, 0x8001, 0xFFFF])
    mtype = r.choice([0, 0, 0, 1]) if r.random() < 0.75 else r.choice(MTYPES)
    rc = 0 if r.random() < 0.8 else r.randint(1, 10)
    n = r.choice([0, 0, 1, 2, 8, 255, 256, 1400]) if r.random() < 0.8 else r.randint(0, 1400)
    payload = bytes(r.getrandbits(8) for _ in range(min(n, 64))) + bytes(max(0, n - 64))
    return {"svc": svc, "method": method, "client": r.choice([0, 1, 0xCCCC, 0xFFFF, r.randint(0, 0xFFFF)]), "session": r.choice([0, 1, 0xFFFF, r.randint(0, 0xFFFF)]),
            "iface": iface, "mtype": mtype, "rc": rc, "payload": payload.hex()}


def gen(seed, idx, tier):
    r = rng(seed, ID, idx)
    ops = [{"k": "call", "t": 0.0, "f": "start", "a": []}]
    t = 0.01
    if r.random() < 0.6:
        ops.append({"k": "sd", "t": 0.005, "p": 2, "ch": "u", "e": [["sub", SVC["svc"], 1, 2, 1, 0xFFFFFF, 0, [["ep", 4, "10.0.0.13", 17, 4000]]]]})
    late = {}
    if r.random() < 0.3:
        # a method that is registered only after requests for its id have already been refused
        late = {r.choice([5, 6]): round(r.uniform(0.02, 0.4), 6)}
        for mid, tl in late.items():
            ops.append({"k": "call", "t": tl, "f": "register_method", "a": [mid, r.choice(["echo", "empty"])]})
    for _ in range(r.randint(3, 30)):
        t = round(t + r.choice([0.0, 0.0, 0.001, 0.02, 0.05]), 6)
        n = 1 if r.random() < 0.7 else r.randint(2, 4)
        op = {"k": "req", "t": t, "p": r.randrange(3), "ch": "u" if r.random() < 0.88 else "m", "msgs": [rand_msg(r) for _ in range(n)]}
        if r.random() < 0.3:
            op["port"] = r.choice([30491, 40000, 1])
        elif r.random() < 0.2:
            # callers of a dual-stack service: global, link-local (with scope id) and IPv4-mapped IPv6 source addresses;
            # the reply goes to exactly the sockaddr the request came from
            op["src"] = r.choice([["2001:db8::%d" % (11 + op["p"]), 40000, 0, 0], ["fe80::%d" % (11 + op["p"]), 30491, 0, 2], ["::ffff:10.0.0.%d" % (11 + op["p"]), 40000, 0, 0], ["::ffff:192.0.2.7", 30490, 0, 0]])
        if r.random() < 0.08:
            op["tail"] = r.choice(["00", "ffff", "43210001000000080000000002000000" + "00" * 3, "4321000100000007"])
        ops.append(op)
        if r.random() < 0.1:
            ops.append(dict(op))  # the network duplicated it
        elif r.random() < 0.12 and n == 1:
            # the peer bounces back what it got: a frame equal to the ERROR reply this message earns (same ids, type
            # ERROR, that return code, no payload) - a message like any other, answered on its own merits
            from collections import namedtuple
            M = namedtuple("M", "service method iface mtype rc payload")
            m0 = op["msgs"][0]
            exp, _ = expected_reply(M(m0["svc"], m0["method"], m0["iface"], m0["mtype"], m0["rc"], b""), SVC["methods"], SVC["svc"], SVC["major"])
            if exp is not None and exp[0] == 0x81:
                echo = dict(m0, mtype=0x81, rc=exp[1], payload="")
                ops.append(dict(op, t=round(t + r.choice([0.0, 0.001, 0.02]), 6), msgs=[echo]))
    cfg = {"service": SVC, "timings": TIMINGS, "resolver": [0.0, 0.01]}
    return {"engine": "svc", "property": ID, "class": "random", "seed": seed, "cfg": cfg, "ops": ops, "until": round(t + 0.5, 6)}


def expected_reply(m, methods, svc, major):
    """-> None or (mtype, rc, payload) per the property text (first failing check decides)"""
    if m.service != svc:
        return (0x81, 2, b""), "service"
    if m.iface != major:
        return (0x81, 8, b""), "iface"
    kind = methods.get(str(m.method))
    if kind is None:
        return (0x81, 3, b""), "method"
    if m.mtype not in (0, 1):
        return (0x81, 10, b""), "mtype"
    if m.rc != 0:
        return (0x81, 10, b""), "rc"
    if kind in ("malformed", "malformed-sub"):
        return (0x81, 9, b""), "malformed"
    if m.mtype == 1 or kind == "none":
        return None, "silent:" + ("fnf" if m.mtype == 1 else "none")
    return (0x80, 0, m.payload if kind in ("echo", "echo-obj") else b""), "response:" + kind


def nfail(m, methods, svc, major):
    return sum([m.service != svc, m.iface != major, methods.get(str(m.method)) is None, m.mtype not in (0, 1), m.rc != 0])


def check(plan, res):
    sc = plan["cfg"]["service"]
    viol = []
    probes = {}
    states = set()

    def probe(k, n=1):
        probes[k] = probes.get(k, 0) + n

    pending = None  # (src, [expected...], descr)
    got = []

    def close():
        nonlocal pending, got
        if pending is None:
            return
        src, exp, descr, mc = pending
        want = [e for e in exp if e is not None]
        if mc:
            if got:
                viol.append(("MCAST-SILENT", {"msg": f"{len(got)} reply(ies) to a message received over multicast: {descr}", "context": "multicast-answered"}))
        elif len(got) != len(want):
            ctx = "missing-reply" if len(got) < len(want) else "extra-reply"
            viol.append(("REPLY", {"msg": f"{len(got)} replies, expected {len(want)} for {descr}", "context": ctx}))
        else:
            for (dst, rm), (req, e) in zip(got, want):
                mt, rc, pl = e
                if dst != src:
                    viol.append(("REPLY", {"msg": f"reply sent to {dst}, request came from {src}", "context": "wrong-destination"}))
                elif (rm.mtype, rm.rc) != (mt, rc):
                    viol.append(("REPLY", {"msg": f"reply type/code {rm.mtype:#x}/{rm.rc}, expected {mt:#x}/{rc} for {descr}", "context": f"code:{rc}"}))
                elif (rm.service, rm.method, rm.client, rm.session, rm.iface) != (req.service, req.method, req.client, req.session, req.iface):
                    viol.append(("REPLY", {"msg": f"reply ids {(rm.service, rm.method, rm.client, rm.session, rm.iface)} do not echo the request {(req.service, req.method, req.client, req.session, req.iface)}", "context": "ids"}))
                elif rm.payload != pl:
                    viol.append(("REPLY", {"msg": f"reply payload of {len(rm.payload)} bytes, expected {len(pl)} bytes for {descr}", "context": "payload"}))
        pending, got = None, []

    methods = dict(sc["methods"])
    for seq, it, T, actor, kind, data in res.log:
        if kind == "op" and data[2] == "register_method":
            close()
            methods[str(data[3][0])] = data[3][1]
            probe("late_registration")
            continue
        if kind == "rx":
            close()
            ch, src, payload, to = data
            if to != SVC_ADDR:
                continue  # SD traffic for the discovery endpoint
            msgs, err = refdec.split_datagram(payload)
            if len(msgs) > 1:
                probe("coalesced_datagrams")
            if err is not None:
                probe("undecodable_tail")
            exp = []
            descs = []
            for m in msgs:
                e, why = expected_reply(m, methods, sc["svc"], sc["major"])
                exp.append(None if e is None else (m, e))
                descs.append(why)
                states.add(hash((why, m.mtype, ch, nfail(m, methods, sc["svc"], sc["major"]))) & 0xFFFFFFFFFFFF)
                if nfail(m, methods, sc["svc"], sc["major"]) > 1:
                    probe("several_checks_fail")
                if ch == "m":
                    probe("multicast_requests")
                elif e is None:
                    probe("silent")
                elif e[0] == 0x80:
                    probe("responses")
                else:
                    probe("errors")
            pending = (src, exp, "+".join(descs) or "undecodable", ch == "m")
        elif kind == "tx":
            src, dst, payload = data
            if src != SVC_ADDR:
                continue
            msgs, err = refdec.split_datagram(payload)
            for m in msgs:
                if m.mtype == 2 and m.method & 0x8000:
                    continue  # event notification, C17's business
                if pending is None:
                    viol.append(("REPLY", {"msg": f"unsolicited message type {m.mtype:#x} sent to {dst}", "context": "unsolicited"}))
                else:
                    got.append((dst, m))
        elif kind in ("idle", "op"):
            close()
    close()
    foreign = bool(res.loop_exc or res.swallowed or res.op_exc)
    judged = sum(probes.get(k, 0) for k in ("responses", "errors", "silent", "multicast_requests"))
    return {"violations": viol, "nontrivial": judged > 0, "probes": probes, "states": states, "foreign": foreign}


def site(rule, plan, detail):
    return detail.get("context", "general")
