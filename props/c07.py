"""C07 — peer reboot is detected exactly, per sender and per channel."""
from collections import Counter

from models.session import SessionModel
from sim import refdec
from .common import COMPONENTS, ASSUMPTIONS, rng  # noqa: F401

ID = "C07"
LEVEL = "exploration"
MINIMISE_S = 5.0
RULES = {
    "DETECT-IFF": "a received SD message leads to reboot handling iff, against the previous SD message of the same sender on the same channel, the flag went clear->set or stayed set while the session id did not increase; first messages, set->clear, other senders, the other channel, non-SD and undecodable datagrams neither trigger nor update",
    "FANOUT-ONCE": "each detection reaches the discovery, subscription and announcement parts exactly once, with the sender's address",
}
RULE_TEXT = (
    "directed sweep over the 12-symbol boundary alphabet (flag x {1,2,3,0x7FFF,0xFFFE,0xFFFF}): 12 first messages, 144 ordered pairs and "
    "1728 triples on one key (a third of them as Offer / StopOffer / Find of a watched service, a third as Offer with TTL 1 / Find / a message after the expiry: the sender's services come and go, its session record must stay), "
    "6912 interference cases (a on K, x on another sender / the other channel / both / another port of the same host, b on K); random walks of "
    "20-2000 messages over 3 hosts x 2 ports x 2 channels with random 16-bit ids, offers and stop-offers of a watched service with short TTLs, foreign and undecodable datagrams, coalesced messages, "
    "duplicates and reordered copies, the node stopped and started in between, and in some walks a crowd of 130-600 further senders heard once. non-trivial = at least one message had a predecessor on its key; distinct = interleaving signature; "
    "distinct_model_states counts distinct (previous symbol, symbol, outcome) transitions observed"
)
PROBES = ["unicast_flag_clear_messages", "detections", "non_detections_with_history", "foreign_datagrams", "undecodable_sd", "coalesced", "wrap_set_to_clear"]

SIDS = [1, 2, 3, 0x7FFF, 0xFFFE, 0xFFFF]
SYMS = [(f, s) for f in (0, 1) for s in SIDS]
N1, N2, N3, NI = 12, 144, 1728, 6912
NSWEEP = N1 + N2 + N3 + NI
RANDOM_RUNS = {"quick": 3000, "thorough": 400000}
FIND = [["find", 0x7777, 0xFFFF, 0xFF, 0xFFFFFFFF, 3]]
WATCHED = [0x1111, 0xFFFF, 0xFF, 0xFFFFFFFF]
ALT_PORT = 40001


def OFFER(ttl):
    return [["offer", 0x1111, 1, 1, 0, ttl]]


def budget(tier):
    return NSWEEP + RANDOM_RUNS[tier], {"quick": 120, "thorough": 1500}[tier]


def EXHAUSTIVE(tier, complete):
    return {"alphabet": 12, "first": N1, "pairs": N2, "triples": N3, "interference": NI, "completed": complete}


def msg(t, p, ch, sym, entries=None, port=None):
    o = {"k": "sd", "t": t, "p": p, "ch": ch, "sess": [sym[0], sym[1]], "e": FIND if entries is None else entries}
    if port is not None:
        o["port"] = port
    return o


def base_plan(ops, cls, seed=0, until=None, start_at=0.0):
    cfg = {
        "wrap": ["reboot"],
        "filters": [WATCHED],
        "timings": {"INITIAL_DELAY_MIN": 0.0, "INITIAL_DELAY_MAX": 0.0, "REPETITIONS_MAX": 0, "SUBSCRIBE_REFRESH_INTERVAL": None},
    }
    ops = sorted([{"k": "call", "t": start_at, "f": "start"}, {"k": "call", "t": 0.0, "f": "watch", "a": [0, "L0"]}] + ops, key=lambda o: o["t"])
    return {"engine": "single", "property": ID, "class": cls, "seed": seed, "cfg": cfg, "ops": ops, "until": until or (max(o["t"] for o in ops) + 1.0)}


def sweep_plan(i):
    if i < N1:
        return base_plan([msg(0.1, 0, "u" if i % 2 else "m", SYMS[i])], "first")
    i -= N1
    if i < N2:
        a, b = SYMS[i // 12], SYMS[i % 12]
        ch = "m" if (i // 7) % 2 else "u"
        variant = (i // 12 + i) % 3
        if variant == 1:
            # the node is stopped and started again between the two messages: what it knows about its peers stays
            return base_plan([msg(0.1, 0, ch, a), {"k": "call", "t": 0.12, "f": "stop"}, {"k": "call", "t": 0.15, "f": "start"}, msg(0.2, 0, ch, b)], "pair")
        if variant == 2:
            # the first message arrives before the node is started for the first time
            return base_plan([msg(0.1, 0, ch, a), msg(0.2, 0, ch, b)], "pair", start_at=0.15)
        return base_plan([msg(0.1, 0, ch, a), msg(0.2, 0, ch, b)], "pair")
    i -= N2
    if i < N3:
        a, b, c = SYMS[i // 144], SYMS[(i // 12) % 12], SYMS[i % 12]
        variant = (i // 12 + i) % 3
        if variant == 1:
            # the sender's only service is offered, then stopped: the record of the sender must survive that
            return base_plan([msg(0.1, 1, "m", a, OFFER(3)), msg(0.2, 1, "m", b, OFFER(0)), msg(0.3, 1, "m", c)], "triple")
        if variant == 2:
            # ... or expires (TTL 1 at 0.1 -> 1.1) before the third message
            return base_plan([msg(0.1, 1, "m", a, OFFER(1)), msg(0.2, 1, "m", b), msg(1.4, 1, "m", c)], "triple")
        return base_plan([msg(0.1, 1, "m", a), msg(0.2, 1, "m", b), msg(0.3, 1, "m", c)], "triple")
    i -= N3
    a, x, b, kind = SYMS[(i // 576) % 12], SYMS[(i // 48) % 12], SYMS[(i // 4) % 12], i % 4
    other = [(1, "u", None), (0, "m", None), (1, "m", None), (0, "u", ALT_PORT)][kind]  # other sender / other channel / both / other port of the same host
    return base_plan([msg(0.1, 0, "u", a), msg(0.2, other[0], other[1], x, port=other[2]), msg(0.3, 0, "u", b)], "interference")


def random_plan(seed, idx):
    r = rng(seed, ID, idx)
    n = r.choice([20, 50, 100, 300, 2000]) if r.random() < 0.9 else 2000
    ops = []
    t = 0.1
    sent = []
    crowd_at = r.randrange(n) if r.random() < 0.06 else None
    for j in range(n):
        if j == crowd_at:
            # a crowd of further senders (ports of the three hosts, both channels) is heard in between: the records of
            # the senders of this history are still there afterwards
            for q in range(r.choice([130, 256, 300, 600])):
                t = round(t + 0.0005, 6)
                ops.append(msg(t, q % 3, "um"[(q // 3) % 2], (1, r.choice(SIDS)), port=42000 + q // 6))
        t = round(t + r.choice([0.0, 0.0, 0.001, 0.01, 0.5, 1.2 if n <= 100 else 0.01]), 6)
        p = r.randrange(3)
        ch = r.choice("um")
        port = ALT_PORT if r.random() < 0.2 else None
        u = r.random()
        if u < 0.70:
            w = r.random()
            if w < 0.4:
                sid = r.choice(SIDS)
            elif w < 0.7 and sent:
                # around the last id used on some key: equal, +1, -1
                sid = min(0xFFFF, max(1, r.choice(sent)[3][1] + r.choice([-1, 0, 1])))
            else:
                sid = r.randint(1, 0xFFFF) if r.random() < 0.93 else 0  # 0: legal on the wire, never sent by an SD stack
            sym = (r.random() < 0.6, sid)
            w2 = r.random()
            src6 = None
            if r.random() < 0.12:
                # two link-local IPv6 peers with one address and one port on two interfaces: the scope id tells them apart
                src6 = ["fe80::11", 30490, 0, r.choice([2, 3])]
            o = msg(t, p, ch, sym, FIND if w2 < 0.5 else OFFER(r.choice([1, 1, 3])) if w2 < 0.7 else OFFER(0) if w2 < 0.8 else [], port=port)
            if src6:
                o["src"] = src6
                o.pop("port", None)
            if r.random() < 0.15:
                o["client"] = r.choice([1, 2, 0xFFFF])  # the SOME/IP client id of an SD message says nothing about who sent it
            if r.random() < 0.12:
                o["uf"] = False  # unicast flag clear: its entries are ignored, it is still a received SD message of that sender
            ops.append(o)
            sent.append((t, p, ch, sym, port))
        elif u < 0.78 and sent:
            # duplicate / reordered copy of an earlier message, as the network would produce it
            _, p2, ch2, sym2, port2 = r.choice(sent[-5:])
            ops.append(msg(t, p2, ch2, sym2, port=port2))
        elif u < 0.88:
            # foreign SOME/IP message (not SD): must neither trigger nor update
            data = refdec.enc_someip(r.choice([0x1234, 0xFFFF]), r.choice([0x8100, 1]), 0, r.randint(1, 0xFFFF), r.choice([1, 2]), r.choice([0, 2]), 0, b"\x80\x00\x00\x00" + bytes(8))
            if refdec.is_sd_header(refdec.dec_someip(data)[0]):
                continue
            ops.append({"k": "raw", "t": t, "p": p, "ch": ch, "hex": data.hex()})
        elif u < 0.95:
            # SD header, undecodable payload (entries length runs past the end), flag set, low id
            payload = b"\xc0\x00\x00\x00" + (1000).to_bytes(4, "big") + bytes(16)
            data = refdec.enc_someip(0xFFFF, 0x8100, 0, r.choice([1, 2, 0xFFFF]), 1, 2, 0, payload)
            ops.append({"k": "raw", "t": t, "p": p, "ch": ch, "hex": data.hex()})
        elif u < 0.975:
            # two SD messages coalesced in one datagram
            s1, s2 = (r.random() < 0.5, r.randint(1, 0xFFFF)), (r.random() < 0.5, r.randint(1, 0xFFFF))
            data = refdec.enc_sd_message([], s1[1], reboot=s1[0]) + refdec.enc_sd_message([], s2[1], reboot=s2[0])
            ops.append({"k": "raw", "t": t, "p": p, "ch": ch, "hex": data.hex()})
        elif u < 0.99:
            # an undecodable SD message (or a foreign message) in front of / between good ones in one datagram: what follows still counts
            bad = refdec.enc_someip(0xFFFF, 0x8100, 0, r.choice([1, 2, 0xFFFF]), 1, 2, 0, b"\xc0\x00\x00\x00" + (1000).to_bytes(4, "big") + bytes(16))
            foreign = refdec.enc_someip(0x1234, 1, 0, 7, 1, 2, 0, b"\x01\x02")
            s1, s2 = (r.random() < 0.6, r.choice(SIDS + [r.randint(1, 0xFFFF)])), (r.random() < 0.6, r.choice(SIDS + [r.randint(1, 0xFFFF)]))
            g1, g2 = refdec.enc_sd_message([], s1[1], reboot=s1[0]), refdec.enc_sd_message([], s2[1], reboot=s2[0])
            data = r.choice([bad + g1, g1 + bad + g2, foreign + g1, bad + bad + g1, g1 + foreign + g2])
            ops.append({"k": "raw", "t": t, "p": p, "ch": ch, "hex": data.hex()})
        else:
            # the node is stopped and started again: the peers' session records survive
            ops.append({"k": "call", "t": t, "f": "stop"})
            t = round(t + r.choice([0.0, 0.001, 0.3]), 6)
            ops.append({"k": "call", "t": t, "f": "start"})
    pl = base_plan(ops, "random", seed, start_at=r.choice([0.0, 0.0, 0.0, 0.15, 0.6]))
    pl["cfg"]["sock_flip"] = r.choice([0, 0.5, 1.0])
    return pl


def gen(seed, idx, tier):
    if idx < NSWEEP:
        return sweep_plan(idx)
    return random_plan(seed, idx - NSWEEP)


PARTS = ("discovery", "subscriber", "announcer")


def check(plan, res):
    model = SessionModel()
    viol = []
    probes = Counter()
    states = set()
    window = None  # (src, expected detections, description)
    got = Counter()
    had_history = False

    def close():
        nonlocal window, got
        if window is None:
            return
        src, exp, desc = window
        parts_seen = {p for (p, a) in got}
        wrong_addr = [a for (p, a) in got if a != src]
        if exp == 0 and got:
            viol.append(("DETECT-IFF", {"msg": f"reboot handling without evidence: {desc}", "context": desc.split(" | ")[0]}))
        elif exp and not got:
            viol.append(("DETECT-IFF", {"msg": f"reboot evidence not acted on: {desc}", "context": desc.split(" | ")[0]}))
        elif exp and (wrong_addr or any(got[(p, src)] != exp for p in PARTS)):
            viol.append(("FANOUT-ONCE", {"msg": f"detection fan-out {dict(got)} for {desc}", "context": "parts=" + ",".join(sorted(parts_seen))}))
        window, got = None, Counter()

    for seq, it, T, actor, kind, data in res.log:
        if kind == "rx":
            close()
            ch, src, payload = data[:3]
            msgs, err = refdec.split_datagram(payload)
            if len(msgs) > 1:
                probes["coalesced"] += 1
            exp = 0
            descs = []
            for m in msgs:
                cls, sdm = refdec.classify(m)
                if cls != "sd":
                    probes["foreign_datagrams" if cls == "foreign" and not refdec.is_sd_header(m) else "undecodable_sd"] += 1
                    continue
                if not sdm.unicast:
                    probes["unicast_flag_clear_messages"] += 1
                prev = model.last.get((src, ch == "m"))
                det = model.rx(src, ch == "m", sdm.reboot, m.session)
                if prev is not None:
                    had_history = True
                    rel = "lt" if m.session < prev[1] else "eq" if m.session == prev[1] else "gt"
                    descs.append(f"flag {int(prev[0])}->{int(sdm.reboot)} sid {rel} | prev={prev} now={(sdm.reboot, m.session)} ch={ch}")
                    if prev[1] in SIDS and m.session in SIDS:
                        states.add(hash((prev, sdm.reboot, m.session, det)) & 0xFFFFFFFFFFFF)
                    if prev[0] and not sdm.reboot:
                        probes["wrap_set_to_clear"] += 1
                else:
                    descs.append(f"first message | now={(sdm.reboot, m.session)} ch={ch}")
                if det:
                    exp += 1
                    probes["detections"] += 1
                elif prev is not None:
                    probes["non_detections_with_history"] += 1
            if not descs:
                descs = ["non-SD datagram | "]
            window = (src, exp, descs[0] if len(descs) == 1 else "coalesced | " + "; ".join(descs))
        elif kind == "reboot-detected":
            if window is None:
                viol.append(("DETECT-IFF", {"msg": f"reboot handling {data} outside any message", "context": "no-message"}))
            else:
                got[(data[0], data[1])] += 1
        elif kind == "idle":
            close()
    close()
    foreign = bool(res.loop_exc or res.swallowed or res.op_exc)
    return {"violations": viol, "nontrivial": had_history, "probes": dict(probes), "states": states, "foreign": foreign}


def site(rule, plan, detail):
    return detail.get("context", "general")
