"""C11 — every unicast Subscribe gets exactly one correct Ack or Nack."""
from models.subscription import SubscriptionOracle
from sim import single
from .builders import Builder, INF_TTL, ep
from .common import COMPONENTS, ASSUMPTIONS, rng  # noqa: F401

ID = "C11"
LEVEL = "exploration"
MINIMISE_S = 6.0
RULES = {
    "ACK-SEQUENCE": "per sender, the SubscribeAck entries leaving the transport are exactly the model's: one per unicast Subscribe with TTL>0, in order, echoing service, instance, major version, eventgroup and counter, with the requested TTL if a running instance declaring the eventgroup accepted it and TTL 0 otherwise; nothing for StopSubscribe of a known eventgroup; nothing to anybody else",
    "MCAST-IGNORED": "a twin run in which the Subscribe entries received over multicast are replaced by a FindService nobody answers has the identical history of listener callbacks and transmissions",
}
RULE_TEXT = (
    "random plans: 1-3 rogue senders send messages of 1-20 Subscribe/StopSubscribe entries (ids at and around the instances' ids, counter 0-15, "
    "TTL 0/1/2/3/infinite, 0-3 endpoint options incl. IPv6, extra config / load-balancing options) over unicast and multicast to a server with "
    "0-3 instances (running, stopped, not started, non-cyclic finished, wildcard ids), listener accept/reject decisions by mode and by key, "
    "at arbitrary and deadline-aligned instants. non-trivial = at least one Ack or Nack was judged; distinct = interleaving signature"
)
PROBES = ["acks_judged", "nacks_judged", "multi_entry_messages", "multicast_subscribe", "listener_rejected", "stopsubscribe_silent", "twin_runs"]

INSTANCES = [
    {"svc": 0x1111, "inst": 1, "major": 1, "minor": 0, "egs": [1, 2], "reject_keys": [[2, 5]]},
    {"svc": 0x2222, "inst": 5, "major": 1, "minor": 0, "egs": [1], "timings": {"CYCLIC_OFFER_DELAY": 0}},
    {"svc": 0x3333, "inst": 0xFFFF, "major": 0xFF, "minor": 0, "egs": [7]},
]
TIMINGS = {"INITIAL_DELAY_MIN": 0.0, "INITIAL_DELAY_MAX": 0.0, "REPETITIONS_MAX": 0, "CYCLIC_OFFER_DELAY": 1000, "SUBSCRIBE_REFRESH_INTERVAL": None}
RUNS = {"quick": 30000, "thorough": 3000000}


def budget(tier):
    return RUNS[tier], {"quick": 120, "thorough": 1500}[tier]


def rand_entry(r, p):
    ins = r.choice(INSTANCES)
    svc = ins["svc"] if r.random() < 0.9 else r.choice([0x1112, 0x4444])
    inst = ins["inst"] if ins["inst"] != 0xFFFF else r.choice([1, 9, 0xFFFE])
    if r.random() < 0.1:
        inst = r.choice([inst + 1, 0xFFFF, 0])
    major = ins["major"] if ins["major"] != 0xFF else r.choice([0, 3, 0xFE])
    if r.random() < 0.1:
        major = r.choice([major + 1, 0xFF])
    eg = r.choice(ins["egs"]) if r.random() < 0.85 else r.choice([0, 9, 0xFFFF])
    ttl = r.choice([0, 1, 2, 3, 3, INF_TTL])
    counter = r.choice([0, 0, 1, 5, 15])
    w = r.random()
    if w < 0.70:
        eps = [ep(p)]
    elif w < 0.78:
        eps = []
    elif w < 0.88:
        eps = [ep(p), ep(p, 4001)]
    elif w < 0.94:
        eps = [["ep", 6, "fd00::%d" % (11 + p), 17, 4000]]
    else:
        eps = [ep(p), ["ep", 6, "fd00::%d" % (11 + p), 6, 4000], ep(p, 4002)]
    if len(eps) > 1 and r.random() < 0.5:
        eps.reverse()
    o2 = []
    if r.random() < 0.15:
        o2 = [r.choice([["cfg", [["key", "value"], ["flag", None]]], ["lb", 1, 2], ["unk", 0x77, "0011"], ["sdep", 4, "10.0.0.99", 17, 30491], ["sdep", 6, "fd00::99", 17, 30490]])]
    return ["sub", svc, inst, major, eg, ttl, counter, eps, o2]


def gen(seed, idx, tier):
    r = rng(seed, ID, idx)
    b = Builder()
    announce = r.choice([(0, 1, 2), (0, 1), (0,), ()])
    for i in announce:
        b.at0("announce", [i])
    if r.random() < 0.9:
        b.at0("start")
    sess = {}
    for _ in range(r.randint(3, 25)):
        b.random_time(r)
        k = r.random()
        p = r.randrange(3)
        if k < 0.70:
            ch = "u" if r.random() < 0.85 else "m"
            n = 1 if r.random() < 0.6 else r.randint(2, 20) if r.random() < 0.93 else r.choice([64, 65, 70])
            entries = [rand_entry(r, p) for _ in range(n)]
            if r.random() < 0.2 and n > 1:
                # repeat an entry: second Subscribe for the same subscription in one message
                entries.append(list(entries[0]))
            if r.random() < 0.15:
                # a peer that is server and client at once bundles other entries with its Subscribes: the
                # acknowledgement of a Subscribe of ours, a FindService, an offer - in front of or between them
                other = r.choice([["suback", 0x5555, 1, 1, 1, 3, 0], ["suback", 0x5555, 1, 1, 1, 0, 0], ["find", 0x7777, 0xFFFF, 0xFF, 0xFFFFFFFF, 3], ["offer", 0x6666, 1, 1, 0, 3]])
                entries.insert(r.choice([0, 0, r.randrange(len(entries) + 1)]), other)
            sid = sess.get((p, ch), 0) + 1
            sess[(p, ch)] = sid
            if r.random() < 0.1:
                sid2 = sid + 1
                sess[(p, ch)] = sid2
                b.sd(p, ch, entries, sess=[True, sid], e2=[rand_entry(r, p) for _ in range(r.randint(1, 3))])
            else:
                b.sd(p, ch, entries, sess=[True, sid])
            if r.random() < 0.12:
                # a second SD endpoint on the peer's host asks in the same collection window: each gets its own answers
                b.ops[-1]["port"] = 40001
                b.ops[-1].pop("sess", None)
        elif k < 0.73:
            # a FindService answer is pending for this peer when the instance stops (its collector is flushed); what the
            # peer subscribes to afterwards must still be answered
            ins = INSTANCES[r.choice([0, 1])]
            b.sd(p, "u", [["find", ins["svc"], 0xFFFF, 0xFF, 0xFFFFFFFF, 3]])
            b.t = round(b.last_t + r.choice([0.0005, 0.002, 0.01]), 9)
            b.call(r.choice(["stop_announce", "ann_stop"]), [INSTANCES.index(ins)] if True else [])
            if b.ops[-1]["f"] == "ann_stop":
                b.ops[-1]["a"] = []
        elif k < 0.78:
            b.call("reject", [r.randrange(3), r.random() < 0.6])
        elif k < 0.84:
            b.call("stop_announce", [r.randrange(3)])
        elif k < 0.90:
            b.call("announce", [r.randrange(3)])
        elif k < 0.94:
            b.call("ann_stop")
        elif k < 0.98:
            b.call("ann_start")
        else:
            b.call("stop")
    cfg = {
        "instances": INSTANCES,
        "timings": dict(TIMINGS, SEND_COLLECTION_TIMEOUT=r.choice([0, 0.005, 0.005, 0.05])),
        "sock_flip": r.choice([0, 0.5, 1.0]),
    }
    return {"engine": "single", "property": ID, "class": "random", "seed": seed, "cfg": cfg, "ops": b.ops, "until": b.until(1.0)}


def match(expected, seen):
    """expected may contain optional nacks; -> None if seen fits, else a description"""
    i = j = 0
    while i < len(expected):
        e = expected[i]
        if e[5] == "optional-nack":
            if j < len(seen) and seen[j] == e[:5] + (0,):
                # take it only if the rest still fits
                if match(expected[i + 1 :], seen[j + 1 :]) is None:
                    return None
            i += 1
            continue
        if j >= len(seen):
            return f"missing answer #{j + 1}: expected {fmt(e)}, got nothing"
        if seen[j] != e:
            return f"answer #{j + 1}: expected {fmt(e)}, got {fmt(seen[j])}"
        i += 1
        j += 1
    if j < len(seen):
        return f"unexpected extra answer #{j + 1}: {fmt(seen[j])}"
    return None


def fmt(e):
    return f"(svc={e[0]:#x} inst={e[1]:#x} major={e[2]} eg={e[3]} counter={e[4]} ttl={e[5]})"


def events(log):
    return [(e[2], e[4], e[5]) for e in log if e[4] in ("cb", "tx")]


def classify(exp, got):
    if got is None:
        return "missing"
    if exp is None:
        return "extra"
    if exp[:5] != got[:5]:
        return "echo"
    return "nack-for-ack" if got[5] == 0 else "ack-for-nack" if exp[5] == 0 else "ttl"


def check(plan, res):
    o = SubscriptionOracle(plan["cfg"]["instances"]).walk(res.log)
    viol = []
    probes = dict(o.probes)
    judged = 0
    for src in set(o.expected_acks) | set(o.seen_acks):
        exp = o.expected_acks.get(src, [])
        seen = o.seen_acks.get(src, [])
        judged += len(seen)
        probes["acks_judged"] = probes.get("acks_judged", 0) + sum(1 for s in seen if s[5])
        probes["nacks_judged"] = probes.get("nacks_judged", 0) + sum(1 for s in seen if not s[5])
        m = match(exp, seen)
        if m is not None:
            # discriminator: what kind of disagreement
            ee = [e for e in exp if e[5] != "optional-nack"]
            kind = "count" if len(ee) != len(seen) else next((classify(a, b) for a, b in zip(ee, seen) if a != b), "order")
            if src not in o.expected_acks:
                kind = "wrong-destination"
            viol.append(("ACK-SEQUENCE", {"msg": f"to {src[0]}: {m}", "context": kind}))
    mc_ops = [i for i, op in enumerate(plan["ops"]) if op["k"] == "sd" and op["ch"] == "m" and any(e[0] == "sub" for e in op["e"] + op.get("e2", []))]
    if any(op["k"] == "sd" and len(op["e"]) > 1 for op in plan["ops"]):
        probes["multi_entry_messages"] = 1
    if mc_ops and not plan.get("_twin"):
        # same datagrams at the same instants, only the multicast Subscribe entries are
        # replaced by a FindService nobody answers: scheduling stays identical
        harmless = ["find", 0x7777, 0xFFFF, 0xFF, 0xFFFFFFFF, 3]
        ops2 = []
        for i, op in enumerate(plan["ops"]):
            if i in mc_ops:
                op = dict(op, e=[harmless if e[0] == "sub" else e for e in op["e"]])
                if "e2" in op:
                    op["e2"] = [harmless if e[0] == "sub" else e for e in op["e2"]]
            ops2.append(op)
        twin = dict(plan, ops=ops2, _twin=True)
        r2 = single.execute(twin)
        probes["twin_runs"] = 1
        a, b = events(res.log), events(r2.log)
        if a != b:
            d = next((i for i, (x, y) in enumerate(zip(a, b)) if x != y), min(len(a), len(b)))
            x = a[d] if d < len(a) else None
            viol.append(("MCAST-IGNORED", {"msg": f"history differs from the twin without multicast Subscribes at event {d}: {str(x)[:160]}", "context": x[1] if x else "shorter"}))
    foreign = bool(res.loop_exc or res.swallowed or res.op_exc)
    return {"violations": viol, "nontrivial": judged > 0, "probes": probes, "states": o.states, "foreign": foreign}


def site(rule, plan, detail):
    return detail.get("context", "general")
