"""C17 — event notifications reach exactly the current subscribers, correctly addressed."""
from models.notify import NotifyOracle
from sim.svc import SVC_ADDR
from .common import COMPONENTS, ASSUMPTIONS, rng  # noqa: F401

ID = "C17"
LEVEL = "exploration"
MINIMISE_S = 8.0
RULES = {
    "INITIAL": "every accepted subscription is followed by one datagram to its endpoint with one notification per event (current values) within the resolver latency bound",
    "ROUND-SET": "every notification datagram belongs to an initial, an explicit or (for groups with an interval) a cyclic round; an explicit round addresses exactly once every endpoint subscribed throughout [trigger, trigger + resolver bound], never an endpoint that is not subscribed in that span, and nothing when the group has no subscriber at the trigger; a group with an interval keeps its rounds going (an endpoint subscribed for more than two intervals plus latency is served)",
    "CONTENT": "service id, method 0x8000|event, interface version = major version, NOTIFICATION, payload = the value the event has in the instant of the transmission (not one read before the address lookup)",
    "SESSION-PER-DEST": "per destination address the notifications carry session ids 1, 2, ... (0xFFFF -> 1, never 0)",
    "REFUSE": "a subscription naming other than exactly one endpoint, or an unknown eventgroup, is refused; one with exactly one endpoint for a registered eventgroup is accepted",
}
RULE_TEXT = (
    "random plans: a SimpleService with an explicit-only eventgroup (2 events) and a cyclic one (250 ms), announced by a real SD stack; "
    "3 rogue clients subscribe / stop-subscribe / restart with IPv4 and IPv6 endpoints, 0, 1 or 2 endpoint options, unknown eventgroups, "
    "finite TTLs that expire mid-run; value updates and explicit notification requests for any subset of events at random instants, in "
    "the same instant as subscription changes and inside the resolver latency of a pending round (seeded 0-50 ms getaddrinfo latency). "
    "Class shared-endpoint: two subscriptions that name one endpoint and differ in the counter. non-trivial = at least one "
    "notification was judged; distinct = interleaving signature"
)
SELFTEST_N = 20
PROBES = ["session_wraps", "matched_initial", "matched_explicit", "cyclic_datagrams", "refused", "notify_once_without_clients", "second_subscription_for_one_endpoint", "cyclic_liveness_judged"]
RUNS = {"quick": 16000, "thorough": 1500000}
HASHSEEDS = [1, 2]
SVC = {
    "svc": 0x4321, "inst": 1, "major": 2, "minor": 0, "methods": {"1": "echo"},
    "eventgroups": [{"id": 1, "interval": None, "values": {"1": "", "2": "aabb"}}, {"id": 2, "interval": 0.25, "values": {"16": "10"}}],
}
TIMINGS = {"INITIAL_DELAY_MIN": 0, "INITIAL_DELAY_MAX": 0, "REPETITIONS_MAX": 0, "CYCLIC_OFFER_DELAY": 100, "SEND_COLLECTION_TIMEOUT": 0, "SUBSCRIBE_REFRESH_INTERVAL": None}
INF_TTL = 0xFFFFFF


def budget(tier):
    return RUNS[tier], {"quick": 150, "thorough": 1800}[tier]


def ep(p, port=4000, v6=False):
    return ["ep", 6, "fd00::%x" % (0x11 + p), 17, port] if v6 else ["ep", 4, f"10.0.0.{11 + p}", 17, port]


WRAP_EVERY = 2001  # odd: the long runs spread over the workers


def gen_wrap(seed, idx):
    """long enough to wrap a destination's session id: 1 ms cyclic rounds of two events (a datagram straddles the
    wrap) plus explicit rounds of one event (so that the parity changes), two subscribers joining at different moments"""
    r = rng(seed, ID, "wrap", idx)
    svc = dict(SVC, eventgroups=[{"id": 1, "interval": 0.001, "values": {"1": "00", "2": "aabb"}}])
    cfg = {"service": svc, "timings": TIMINGS, "resolver": [0.0, r.choice([0.0, 0.0005])], "max_iterations": 5000000}
    ops = [{"k": "call", "t": 0.0, "f": "start", "a": []}]
    for p in range(2):
        ops.append({"k": "sd", "t": round(0.01 + p * r.uniform(0.0, 2.0), 6), "p": p, "ch": "u", "e": [["sub", SVC["svc"], 1, 2, 1, INF_TTL, 0, [ep(p, 4000, p == 1)]]]})
    for j in range(r.randint(0, 7)):
        ops.append({"k": "call", "t": round(r.uniform(0.1, 30.0), 6), "f": "notify_once", "a": [1, [r.choice([1, 2])]]})
    return {"engine": "svc", "property": ID, "class": "wrap", "seed": seed, "cfg": cfg, "ops": ops, "until": 36.0}


def gen(seed, idx, tier):
    if idx % WRAP_EVERY == WRAP_EVERY - 1:
        return gen_wrap(seed, idx)
    r = rng(seed, ID, idx)
    shared = idx % 10 == 9
    L = r.choice([0.0, 0.01, 0.05])
    cfg = {"service": SVC, "timings": TIMINGS, "resolver": [0.0, L], "sock_flip": r.choice([0, 0.5])}
    ops = [{"k": "call", "t": 0.0, "f": "start", "a": []}]
    t = 0.01
    val = 0
    if shared and r.random() < 0.5:
        # before anything is subscribed: the listener interface is told about the end of a subscription whose endpoint it
        # never saw (tests/test_service.py::test_unsubscribe_unknown does this); it must have no effect on what follows
        for _ in range(r.randint(1, 2)):
            p0 = r.randrange(3)
            ops.append({"k": "call", "t": 0.005, "f": "unsubscribe_direct", "a": [r.choice([1, 2]), ep(p0, r.choice([4000, 4001])), r.choice([0, 1]), p0]})
    for _ in range(r.randint(4, 30)):
        u = r.random()
        if u < 0.3:
            pass
        elif u < 0.5:
            t = round(t + r.uniform(0, max(L, 0.005)), 6)  # inside the resolver latency of what is pending
        else:
            t = round(t + r.uniform(0, 0.6), 6)
        k = r.random()
        p = r.randrange(3)
        g = r.choice([1, 1, 2])
        if k < 0.35:
            eps = [ep(p, r.choice([4000, 4000, 4001]), r.random() < 0.2)]
            w = r.random()
            if w < 0.08:
                eps = []
            elif w < 0.16:
                eps = [ep(p), ep(p, 4001)]
            elif w < 0.22:
                # two endpoints of which one is TCP: still "other than exactly one endpoint"
                tcp = ["ep", 4, f"10.0.0.{11 + p}", 6, r.choice([4000, 4001])]
                eps = [ep(p), tcp] if r.random() < 0.5 else [tcp, ep(p)]
            if r.random() < 0.06:
                g = 9
            counter = r.choice([0, 1]) if shared else 0
            ops.append({"k": "sd", "t": t, "p": p, "ch": "u", "e": [["sub", SVC["svc"], 1, 2, g, r.choice([1, 2, INF_TTL, INF_TTL]), counter, eps]]})
        elif k < 0.50:
            counter = r.choice([0, 1]) if shared else 0
            ops.append({"k": "sd", "t": t, "p": p, "ch": "u", "e": [["sub", SVC["svc"], 1, 2, g, 0, counter, [ep(p, r.choice([4000, 4000, 4001]))]]]})
        elif k < 0.55:
            ops.append({"k": "preboot", "t": t, "p": p})
            ops.append({"k": "sd", "t": t, "p": p, "ch": "u", "e": [["find", 0x7777, 0xFFFF, 0xFF, 0xFFFFFFFF, 3]]})
        elif k < 0.75:
            val += 1
            ev = r.choice([1, 2, 16])
            # the empty payload is a legal value (a trigger event)
            ops.append({"k": "call", "t": t, "f": "set_value", "a": [1 if ev < 16 else 2, ev, "%04x" % val if r.random() < 0.8 else ""]})
            if r.random() < 0.3:
                ops[-1]["defer"] = r.randint(1, 4)  # a few loop iterations into whatever that instant started
            elif r.random() < 0.1:
                # the application replaces the whole values dict (the documented way to publish a new set of values)
                ops[-1]["f"] = "rebind_values"
                if r.random() < 0.5:
                    ops[-1]["a"] = [2, r.choice([17, 18]), "%04x" % val]  # ... and the new set has one more event (cyclic group)
        elif k < 0.97:
            gg = r.choice([1, 1, 1, 2])
            evs = r.choice([[1], [2], [1, 2], [2, 1], []]) if gg == 1 else r.choice([[16], []])
            ops.append({"k": "call", "t": t, "f": "notify_once", "a": [gg, evs], "ph": r.choice(["io", "io", "timer", "late"])})
        else:
            ops.append({"k": "busy", "t": t, "d": r.choice([0.002, 0.02])})
    for op in ops:
        if op.get("ph") == "io":
            del op["ph"]
    if r.random() < 0.1:
        # an event registered under its on-wire id (bit 15 set already): 0x8000 | id is still that id
        HI = 0x8002
        svc = dict(SVC, eventgroups=[{"id": 1, "interval": None, "values": {"1": "", str(HI): "aabb"}}, SVC["eventgroups"][1]])
        cfg["service"] = svc
        for op in ops:
            if op["k"] == "call" and op["f"] in ("set_value", "rebind_values") and op["a"][1] == 2:
                op["a"][1] = HI
            elif op["k"] == "call" and op["f"] == "notify_once" and op["a"][0] == 1:
                op["a"][1] = [HI if e == 2 else e for e in op["a"][1]]
    return {"engine": "svc", "property": ID, "class": "shared-endpoint" if shared else "random", "seed": seed, "cfg": cfg, "ops": ops, "until": round(t + 3.0, 6)}


MY_RULES = set(RULES)


def check(plan, res):
    o = NotifyOracle(plan["cfg"]["service"], plan["cfg"].get("resolver"), SVC_ADDR).walk(res.log)
    v = [(r, d) for r, d in o.violations if r in MY_RULES]
    if plan.get("class") == "shared-endpoint":
        v = [(r, dict(d, context="shared-endpoint:" + d["context"])) for r, d in v]
    # unknown eventgroup: must be refused at the SD layer (Nack) and never reach an eventgroup
    foreign = bool(res.loop_exc or res.op_exc)
    for rec in res.swallowed:
        v.append(("ROUND-SET", {"msg": f"{rec[2]} swallowed in a notification task: {rec[3]}", "context": f"task-raised:{rec[2]}"}))
    probes = dict(o.probes)
    probes["session_wraps"] = sum(1 for d, n in o.session.count.items() if n > 0xFFFF)
    return {"violations": v[:20], "nontrivial": o.nmsg > 0, "probes": probes, "states": o.states, "foreign": foreign}


def site(rule, plan, detail):
    return detail.get("context", "general")
