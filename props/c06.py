"""C06 — server subscription records are truthful; acknowledged subscriptions are held."""
from models.subscription import SubscriptionOracle
from .builders import Builder, INF_TTL, ep, decode_index, sweep_count as _sc
from .common import COMPONENTS, ASSUMPTIONS, rng, site_from_detail  # noqa: F401

ID = "C06"
LEVEL = "exploration"
MINIMISE_S = 6.0
RULES = {
    "ALT": "per (instance, subscriber, subscription): notifications alternate subscribed, unsubscribed, ... starting with subscribed",
    "TRUTH": "at every idle point latest=='subscribed' exactly when the model holds the subscription (accepted; TTL restarted by each Subscribe; ended by TTL, StopSubscribe, reboot evidence, service stop); every Subscribe that needs a decision is put to the listener",
    "NO-REJECTED": "a rejected subscription is never reported unsubscribed (and is not held)",
    "ACK-HELD": "a Subscribe answered with a positive SubscribeAck is held at the next idle point unless the model saw it end",
    "REBOOT-ORDER": "reboot evidence is applied before the Subscribe entries of the same message: nothing from before the reboot still stands when the new Subscribe is accepted or acknowledged",
}
RULE_TEXT = (
    "sweep: i-th run = i-th history over a 24-symbol alphabet (Subscribe ttl 1/2/inf, other eventgroup/peer/counter, StopSubscribe, "
    "reboot+Subscribe/Find, listener reject mode, instance and announcer stop/start, connection loss, same-instant, deadline-aligned "
    "advances, busy period across a deadline) after 'announce; start'; random: 5-40 symbols over 3 peers, 3 instances, 3 eventgroups, "
    "counters, 1-2 endpoints. non-trivial = at least one listener callback and one TRUTH evaluation; distinct = interleaving signature"
)
PROBES = [
    "subscribe_and_deadline_in_one_epoch",
    "reboot_evidence_with_subscribe_in_one_message",
    "listener_rejected",
    "expiry_on_time",
    "multicast_subscribe",
]

INSTANCES = [
    {"svc": 0x1111, "inst": 1, "major": 1, "minor": 0, "egs": [1, 2]},
    {"svc": 0x2222, "inst": 5, "major": 1, "minor": 0, "egs": [1], "reject_keys": [[1, 3]]},
    {"svc": 0x3333, "inst": 0xFFFF, "major": 0xFF, "minor": 0, "egs": [7]},
]
NSYM = 24
SWEEP_LEN = {"quick": 3, "thorough": 4}
RANDOM_RUNS = {"quick": 40000, "thorough": 3000000}


def sweep_count(L):
    return _sc(NSYM, L)


def budget(tier):
    return sweep_count(SWEEP_LEN[tier]) + RANDOM_RUNS[tier], {"quick": 120, "thorough": 1500}[tier]


def EXHAUSTIVE(tier, complete):
    return {"alphabet": NSYM, "max_length": SWEEP_LEN[tier], "histories": sweep_count(SWEEP_LEN[tier]), "completed": complete}


def ids(ins):
    i = INSTANCES[ins]
    return (i["svc"], i["inst"] if i["inst"] != 0xFFFF else 9, i["major"] if i["major"] != 0xFF else 3)


TIMINGS = {"INITIAL_DELAY_MIN": 0.0, "INITIAL_DELAY_MAX": 0.0, "REPETITIONS_MAX": 0, "CYCLIC_OFFER_DELAY": 1000, "SEND_COLLECTION_TIMEOUT": 0.005, "SUBSCRIBE_REFRESH_INTERVAL": None}


class B(Builder):
    def __init__(self, announce=(0, 1)):
        super().__init__()
        for i in announce:
            self.at0("announce", [i])
        self.at0("start")

    def symbol(self, s):
        I0 = ids(0)
        if s == 0:
            self.sub(0, I0, 1, 1)
        elif s == 1:
            self.sub(0, I0, 1, 2)
        elif s == 2:
            self.sub(0, I0, 1, INF_TTL)
        elif s == 3:
            self.sub(0, I0, 2, 1)
        elif s == 4:
            self.sub(1, I0, 1, 1)
        elif s == 5:
            self.sub(0, I0, 1, 0)
        elif s == 6:
            self.preboot(0)
            self.sub(0, I0, 1, 1)
        elif s == 7:
            self.preboot(0)
            self.find(0, "u")
        elif s == 8:
            self.preboot(0)
            self.sub(0, I0, 2, 1)
        elif s == 9:
            self.sub(0, I0, 1, 1, counter=1)
        elif s == 10:
            self.call("reject", [0, True])
        elif s == 11:
            self.call("reject", [0, False])
        elif s == 12:
            self.call("stop_announce", [0])
        elif s == 13:
            self.call("announce", [0])
        elif s == 14:
            self.call("ann_stop")
        elif s == 15:
            self.call("ann_start")
        elif s == 16:
            self.call("conn_lost")
        else:
            # 17: +0.3s, 18: deadline-100us, 19: exact, 20: +100us, 21: -res/4, 22: busy across, 23: same instant
            self.time_symbol({17: 0, 18: 1, 19: 3, 20: 5, 21: 2, 22: 6, 23: 7}[s])

    def plan(self, seed, cls, cfg=None):
        c = {"instances": INSTANCES, "timings": dict(TIMINGS)}
        if cfg:
            for k, v in cfg.items():
                if k == "timings":
                    c["timings"].update(v)
                else:
                    c[k] = v
        return {"engine": "single", "property": ID, "class": cls, "seed": seed, "cfg": c, "ops": self.ops, "until": self.until()}


def sweep_plan(i):
    syms = decode_index(i, NSYM)
    b = B()
    for s in syms:
        b.symbol(s)
    p = b.plan(0, "sweep")
    p["symbols"] = syms
    return p


def random_plan(seed, idx):
    r = rng(seed, ID, idx)
    b = B(announce=r.choice([(0, 1), (0, 1, 2), (0,)]))
    far = r.random() < 0.06  # this plan runs the clock past 0xFFFFFF s (needs a quiet configuration: no periodic offers)
    nsteps = r.randint(5, 40)
    crowd_at = r.randrange(nsteps) if r.random() < 0.08 else None
    for step in range(nsteps):
        b.random_time(r)
        if step == crowd_at:
            # a crowd: several hundred further SD endpoints are heard once (both channels) between two steps of the
            # history - what the stack knows about the subscribers' sessions must survive that
            for j in range(r.choice([130, 260, 300, 520])):
                b.sd(3, "um"[j % 2], [["find", 0x7777, 0xFFFF, 0xFF, 0xFFFFFFFF, 3]], port=41000 + j // 2)
                b.t = round(b.t - b.GAP + 0.0005, 9)
            b.t = round(b.t + b.GAP, 9)
        k = r.random()
        p = r.randrange(3)
        ins = r.choice([0, 0, 0, 1, 2])
        eg = r.choice(INSTANCES[ins]["egs"] + [9] * (r.random() < 0.1))
        counter = r.choice([0, 0, 0, 1, 3, 15])
        ch = "u" if r.random() < 0.92 else "m"
        eps = None
        w = r.random()
        if w < 0.1:
            # two endpoints, in either order: the order of the options is not part of a subscription's identity
            eps = [ep(p), ep(p, 4001)] if r.random() < 0.5 else [ep(p, 4001), ep(p)]
        elif w < 0.15:
            eps = [["ep", 6, "fd00::%d" % (11 + p), 17, 4000]]
        if k < 0.45:
            extra = None
            if r.random() < 0.15:
                i2 = ids(0)
                extra = [["sub", i2[0], i2[1], i2[2], r.choice([1, 2]), r.choice([0, 1, 2, INF_TTL]), 0, [ep(p)]]]
            second = None
            if r.random() < 0.08:
                i3 = ids(0)  # a second SD message in the same datagram
                second = [["sub", i3[0], i3[1], i3[2], r.choice([1, 2]), r.choice([0, 1, 3, INF_TTL]), r.choice([0, 1]), [ep(p)]]]
            pre = None
            if r.random() < 0.15:
                pre = [r.choice([["suback", 0x5555, 1, 1, 1, 3, 0], ["suback", 0x5555, 1, 1, 1, 0, 0], ["find", 0x7777, 0xFFFF, 0xFF, 0xFFFFFFFF, 3], ["offer", 0x6666, 1, 1, 0, 3]])]
            b.sub(p, ids(ins), eg, r.choice([1, 1, 2, 3, INF_TTL]), counter, ch, eps, extra, second=second, pre=pre)
            if r.random() < 0.12:
                b.ops[-1]["port"] = 40001  # a second SD endpoint on that peer's host (own session numbering)
            elif r.random() < 0.06:
                b.ops[-1]["uf"] = False  # unicast flag clear: the entries are ignored, the message still counts for the sender's session
        elif k < 0.55:
            b.sub(p, ids(ins), eg, 0, counter, ch, eps, pre=[["suback", 0x5555, 1, 1, 1, r.choice([0, 3]), 0]] if r.random() < 0.15 else None)
        elif k < 0.70:
            b.preboot(p)
            if r.random() < 0.7:
                b.sub(p, ids(ins), eg, r.choice([1, 2, 3, INF_TTL]), counter, "u", eps)
            else:
                b.find(p, r.choice("um"))
            if r.random() < 0.2:
                # the first message of the new incarnation has the unicast flag clear: its entries are ignored,
                # the reboot it reveals is not; a normal Subscribe follows
                b.ops[-1]["uf"] = False
                b.sub(p, ids(ins), eg, r.choice([1, 2, 3, INF_TTL]), counter, "u", eps)
        elif k < 0.755:
            b.call("reject", [ins, r.random() < 0.6])
        elif k < 0.76:
            if far:
                b.advance(0x1000000)  # far past 0xFFFFFF seconds: infinite TTLs still never expire
        elif k < 0.82:
            b.call("stop_announce", [ins])
        elif k < 0.88:
            b.call("announce", [ins])
        elif k < 0.92:
            b.call("ann_stop")
        elif k < 0.96:
            b.call("ann_start")
        elif k < 0.98:
            b.call("stop")
        else:
            b.call("conn_lost", r.choice([[], ["u"]]))
    # non-cyclic offering (the offer task finishes after the repetitions) is a legal configuration of the instance
    return b.plan(seed, "random", {"sock_flip": r.choice([0, 0.5, 1.0]), "timings": {"SEND_COLLECTION_TIMEOUT": r.choice([0, 0.005, 0.05]), "CYCLIC_OFFER_DELAY": 0x2000000 if far else r.choice([1000, 1000, 0, 0.7])}})


def gen(seed, idx, tier):
    ns = sweep_count(SWEEP_LEN[tier])
    if idx < ns:
        return sweep_plan(idx)
    return random_plan(seed, idx - ns)


MY_RULES = set(RULES)


def check(plan, res):
    o = SubscriptionOracle(plan["cfg"]["instances"]).walk(res.log)
    foreign = bool(res.loop_exc or res.swallowed or res.op_exc)
    v = [(r, d) for r, d in o.violations if r in MY_RULES]
    return {"violations": v, "nontrivial": o.ncb > 0 and o.ntruth > 0, "probes": o.probes, "states": o.states, "foreign": foreign}


site = site_from_detail
