"""writes MANIFEST.json from the table below (claimed checks, engines, not_applicable)"""
import glob
import json
import os

VERIF = os.path.dirname(os.path.dirname(os.path.abspath(__file__)))

NA = {
    "C01": "pure function of its input (encode/decode of one message, datagram split loop): no schedule, clock, fault or interleaving for a simulator to vary; deciding it needs input-space generation or proof, a different technique family",
    "C02": "pure codec property over option-index assignment; no time, I/O, crash point or interleaving; the input space (0..300 options, sharing patterns) is never approached by simulated SD traffic",
    "C19": "pure boolean matching functions over two small records; an algebraic-law check is enumeration / property-based testing, not simulation",
    "C20": "composition of pure codec functions over accepted byte strings; same reason as C01/C02",
}

TECH = "deterministic simulation with fault injection (real library under a virtual-time asyncio loop, simulated datagram network, scripted rogue peers / real peer stacks, seeded sweep + random search over schedules and faults, reference-model oracles, ddmin + replay file)"
NOTE = "trusted: the simulator's loop semantics (FIFO call_soon, I/O before timers, timers in deadline order, one datagram per socket per iteration), the independent reference decoder sim/refdec.py, and the reference model written from the property text; a clean run is evidence, not proof"

CHECKS = {
    # id: (engine, level, text, design_ref)
    "C03": ("pair", "exploration", "corruption-fault injection into a live two-node scenario and into a SimpleService endpoint: corrupted copies of valid messages, foreign SOME/IP messages and arbitrary bytes from known and unknown senders on both channels, also exactly at timer deadlines; no exception may reach the loop, and when every injected message is non-decodable the run must equal, event for event and in final discovery / subscription / session state, the twin run without them. Every injected byte string also goes through the four decoders with a step watchdog, and the accept sets are compared with the reference decoder (that half is input generation riding on the corruptor)", "DESIGN.md §6 C03"),
    "C04": ("pair", "exploration", "two or three complete real stacks on the simulated network; stop / start / crash / restart of either side at random instants and at the recorded deadlines and transmission instants of a fault-free pre-run, loss / duplication / delay / partition windows, failing sendto() system calls reported through error_received(), clock drift, multicast loopback; bounded liveness (CONVERGED within TTL + period + slack after the last disturbance) plus the complete C05 and C06 oracles on every incarnation during the whole run; a separate class covers infinite TTLs without refresh on a lossless network", "DESIGN.md §6 C04"),
    "C05": ("single", "exploration", "complete sweep of all histories up to length 3 (quick) / 4 (thorough) over a 21-symbol alphabet that places messages at, just before and just after every TTL deadline, plus random histories of 5-40 steps; every run judged by ALT / TRUTH / REBOOT-ORDER / FILTER against the store model", "DESIGN.md §6 C05"),
    "C06": ("single", "exploration", "complete sweep of all histories up to length 3 / 4 over a 24-symbol alphabet (Subscribe, StopSubscribe, reboot evidence, listener decisions, service stop/start, deadline-aligned instants) plus random histories; judged by ALT / TRUTH / NO-REJECTED / ACK-HELD / REBOOT-ORDER", "DESIGN.md §6 C06"),
    "C08": ("single", "exploration", "one destination is walked through more than 2 x 65535 transmissions (both wrap-arounds) while the group and other peers, which wrap at other moments, and empty sends are interleaved by the seed; a second class lets a real announcer with 1 ms cyclic offers answer rogue traffic at three rates for 70-140 simulated seconds; every SD message at the transport is decoded and compared with the per-destination counter model", "DESIGN.md §6 C08"),
    "C09": ("single", "exploration", "sweep of add / refresh / stop / remove-all / re-add histories with refreshes at deadline -100us, -res/4, exact, +res/4, +100us and clocks past 0xFFFFFF s, for both TimedStore users, plus random histories; every expiry notification is timed against the model deadline", "DESIGN.md §6 C09"),
    "C07": ("single", "exploration", "directed sweep of the reboot-detection rule over the 12-symbol boundary alphabet: all first messages, all 144 ordered pairs and 1728 triples on one key, 5184 interference cases with another sender / the other channel, plus random walks of up to 2000 messages with foreign, undecodable, coalesced and duplicated datagrams; each detection is observed at the three parts through recording wrappers on the instances", "DESIGN.md §6 C07"),
    "C10": ("single", "exploration", "random timing configurations and operation sequences placed at, just before and just after every timer deadline and transmission instant of the run so far; windows in which sendto() fails and is reported through error_received(); the decoded offer timeline at the transport is judged by interval arithmetic from the property text", "DESIGN.md §6 C10"),
    "C11": ("single", "exploration", "random multi-entry Subscribe / StopSubscribe messages against servers in every lifecycle state with scripted listener decisions; the exact per-sender Ack/Nack sequence is predicted by the subscription model; multicast Subscribes are judged by an exact twin run", "DESIGN.md §6 C11"),
    "C12": ("single", "exploration", "FindService entries over all wildcard combinations at instants aligned with the offer lifecycle, unicast and multicast; every unicast offer must match a pending request inside its timing window and every request to a ready instance must be answered", "DESIGN.md §6 C12"),
    "C13": ("single", "exploration", "1-4 watched filters, timing configurations incl. min=max windows and forced uniform extremes, rogue offers / stop-offers / short-TTL offers / reboots placed at and around every round instant, windows in which sendto() fails and is reported through error_received(); each round's entry set, content, destination and timing are predicted by an interval store model", "DESIGN.md §6 C13"),
    "C14": ("single", "exploration", "random subscribe / stop-subscribe / start / stop sequences over 4 eventgroups x 3 servers with calls placed in the same instant, at and around the refresh ticks, in I/O and timer phase, windows in which sendto() fails and is reported through error_received(); a model server per destination applies the decoded entries in transmission order and must mirror the requested set at every idle point", "DESIGN.md §6 C14"),
    "C15": ("single", "exploration", "every queue_send call is recorded on the announcer instance and matched, per destination and in order, with the decoded entries leaving the transport; bursts up to 130 entries, requests placed exactly at collector deadlines, and windows in which sendto() fails and is reported through error_received()", "DESIGN.md §6 C15"),
    "C16": ("svc", "exploration", "requests arrive as datagrams (single, coalesced, duplicated, with undecodable tails, unicast and multicast) at a SimpleService that concurrently serves subscriptions and 50 ms cyclic notifications; every reply at the transport is compared with the decision chain of the property text. The schedule adds little here - each message is handled synchronously - which DESIGN.md says plainly", "DESIGN.md §6 C16"),
    "C17": ("svc", "exploration", "a SimpleService with an explicit and a cyclic eventgroup behind a real SD stack; rogue clients subscribe / stop / restart / let TTLs expire while values change and explicit rounds are requested inside the seeded resolver latency of pending rounds; datagrams are matched (bipartite) against initial / explicit / cyclic expectations, payloads against the value history, session ids per destination", "DESIGN.md §6 C17"),
    "C18": ("stream", "fault_enumeration", "for nine short streams (valid, and with each kind of rejected header) every single cut position, every pair of cut positions, and EOF / reset at every byte position are enumerated completely; beyond that random streams of 0-8 messages with payloads up to 4096 bytes, random and all-1-byte chunkings, both SOMEIPHeader.read and SOMEIPReader; the reader's output is compared with datagram decoding and with the reference decoder", "DESIGN.md §6 C18"),
}

ENGINES = {
    "single": ("sim/single.py", "one real SD stack (optionally + SimpleService) under SimLoop with scripted rogue peers"),
    "pair": ("sim/pair.py", "two or three real SD stacks on the simulated network with loss/dup/delay/partition/crash/restart/stall/drift"),
    "svc": ("sim/svc.py", "one SimpleService endpoint + SD stack with rogue clients and a slow resolver"),
    "stream": ("sim/stream.py", "asyncio.StreamReader fed by a simulated peer task (chunking, EOF, reset)"),
}


def main():
    have = sorted(os.path.basename(p)[:-3].upper() for p in glob.glob(os.path.join(VERIF, "props", "c[0-9][0-9].py")))
    claimed = [c for c in have if c in CHECKS]
    checks = []
    for pid in claimed:
        eng, level, text, ref = CHECKS[pid]
        checks.append(
            {
                "property_id": pid,
                "quick_cmd": f"./check {pid} --tier quick",
                "thorough_cmd": f"./check {pid} --tier thorough",
                "evidence_file": f"/verif/evidence/{pid}.json",
                "replay_cmd_template": "./check --replay {path}",
                "engine": eng,
                "level_claimed": {"category": level, "text": text, "design_ref": ref},
                "level_note": NOTE,
                "technique": TECH,
            }
        )
    engines = []
    for name, (path, kind) in ENGINES.items():
        serves = [pid for pid in claimed if CHECKS[pid][0] == name]
        if serves:
            engines.append({"name": name, "path": path, "serves_properties": serves, "kind_free_text": kind})
    na = [{"property_id": k, "reason": v} for k, v in NA.items()]
    for n in range(1, 21):
        pid = f"C{n:02d}"
        if pid not in claimed and pid not in NA:
            na.append({"property_id": pid, "reason": "not claimed yet: its simulation check is still being built (see DESIGN.md §6)"})
    m = {
        "version": 1,
        "setup_cmd": "/venv/bin/python -m compileall -q /verif/sim /verif/models /verif/props >/dev/null && ./check --selftest 25",
        "hooks": {
            "guard": "PYSOMEIP_VERIF",
            "enable": "nothing to enable: every seam (event loop, protocol.transport attribute, someip.sd.random, loop.getaddrinfo) is reachable from outside the library, so /repo carries no hook; the guard name is reserved",
            "baseline_off_cmd": "cd /repo && /venv/bin/python -m pytest -ra -q -p no:cacheprovider --timeout=900 --continue-on-collection-errors",
            "source_commits": [],
            "add_only": True,
        },
        "engines": engines,
        "checks": checks,
        "not_applicable": na,
        "notes": "approach, oracles, findings and fixes: DESIGN.md. ./check --selftest runs the determinism self-test; selftest/sensitivity.py applies the deliberate breakages of selftest/mutants.py to scratch copies; seeded/ holds independently written breaking changes.",
    }
    with open(os.path.join(VERIF, "MANIFEST.json"), "w") as f:
        json.dump(m, f, indent=1)
    print("claimed:", claimed)


if __name__ == "__main__":
    main()
