"""For every `fix:` commit in /repo: show the defect on the parent commit with the check that found it
(a minimised replay is saved under findings/), and show that the replay no longer fails on the fix commit.
Scratch worktrees live under /tmp and are removed afterwards."""
import json
import os
import shutil
import subprocess
import sys

VERIF = os.path.dirname(os.path.dirname(os.path.abspath(__file__)))
REPO = "/repo"

# commit subject prefix -> (property, rule that must fire on the parent, runs)
FIXES = [
    ("fix: apply a detected peer reboot", "C06", None, 40000),
    ("fix: handle OfferService entries in arrival order", "C05", None, 40000),
    ("fix: tell a new watcher", "C05", None, 80000),
    ("fix: report a TTL expiry", "C05", None, 80000),
    ("fix: stopping an already stopped announcer", "C10", "STOP-NO-ERROR", 24000),
    ("fix: a stopped service instance no longer answers", "C10", "NO-OFFER-AFTER-STOP", 40000),
    ("fix: a delayed FindService answer", "C10", "NO-OFFER-AFTER-STOP", 40000),
    ("fix: pending FindService answers leave before", "C10", "NO-OFFER-AFTER-STOP", 40000),
    ("fix: an endpoint stays subscribed", "C17", None, 60000),
    ("fix: an SD message with non-ASCII", "C03", "RECEIVE-NO-RAISE", 6000),
    ("fix: connection loss is handled at once", "C05", "TRUTH", 50000),
]
ONLY = None



def sh(cmd, **kw):
    return subprocess.run(cmd, shell=True, capture_output=True, text=True, **kw)


def main():
    log = sh(f"git -C {REPO} log --format='%H %s'").stdout.splitlines()
    out = []
    only = sys.argv[1:] and sys.argv[1]
    prev = []
    if only and os.path.exists(os.path.join(VERIF, "findings", "fixed.json")):
        prev = json.load(open(os.path.join(VERIF, "findings", "fixed.json")))
    for prefix, pid, rule, runs in FIXES:
        if only and only not in prefix:
            continue
        line = next((l for l in log if l.split(" ", 1)[1].startswith(prefix)), None)
        if line is None:
            print("no commit for", prefix)
            continue
        commit, subject = line.split(" ", 1)
        wt_parent, wt_fix = f"/tmp/pf-parent-{commit[:8]}", f"/tmp/pf-fix-{commit[:8]}"
        for wt, rev in ((wt_parent, commit + "^"), (wt_fix, commit)):
            sh(f"git -C {REPO} worktree remove --force {wt}")
            sh(f"git -C {REPO} worktree add --detach {wt} {rev}")
        rdir = f"/tmp/pf-replays-{commit[:8]}"
        shutil.rmtree(rdir, ignore_errors=True)
        env = dict(os.environ, VERIF_REPO=wt_parent, VERIF_NO_EVIDENCE="1", VERIF_REPLAY_DIR=rdir, VERIF_RUNS=str(runs))
        cp = subprocess.run([os.path.join(VERIF, "check"), pid], env=env, capture_output=True, text=True, cwd=VERIF)
        replays = []
        for fn in sorted(os.listdir(rdir)) if os.path.isdir(rdir) else []:
            rp = json.load(open(os.path.join(rdir, fn)))
            if rule is None or rp["rule"] == rule:
                replays.append((len(rp["plan"].get("ops", [])), fn, rp))
        replays.sort(key=lambda x: x[0])
        kept = None
        for _, fn, rp in replays:
            p = os.path.join(rdir, fn)
            # must fail on the parent and pass on the fix commit
            a = subprocess.run([os.path.join(VERIF, "check"), "--replay", p], env=dict(os.environ, VERIF_REPO=wt_parent), capture_output=True, text=True, cwd=VERIF)
            b = subprocess.run([os.path.join(VERIF, "check"), "--replay", p], env=dict(os.environ, VERIF_REPO=wt_fix), capture_output=True, text=True, cwd=VERIF)
            if a.returncode == 1 and b.returncode == 0:
                kept = (fn, rp)
                break
        d = os.path.join(VERIF, "findings", f"{pid}-{commit[:8]}")
        os.makedirs(d, exist_ok=True)
        if kept:
            fn, rp = kept
            rp["repo_commit_fixed"] = commit
            rp["repo_commit_parent"] = sh(f"git -C {REPO} rev-parse {commit}^").stdout.strip()
            json.dump(rp, open(os.path.join(d, "replay.json"), "w"), indent=1)
            print(f"{commit[:8]} {pid}: {rp['rule']}/{rp['site']} fails on parent, passes on fix ({len(rp['plan'].get('ops', []))} ops)  [{subject}]")
            out.append({"status": "fixed", "property": pid, "commit": commit[:12], "rule": rp["rule"], "site": rp["site"], "description": subject[5:] + " - " + rp["detail"].get("msg", "")[:200], "replay": f"findings/{pid}-{commit[:8]}/replay.json"})
        else:
            print(f"{commit[:8]} {pid}: NO replay that fails on parent and passes on fix (check exit {cp.returncode}, {len(replays)} candidates)")
        for wt in (wt_parent, wt_fix):
            sh(f"git -C {REPO} worktree remove --force {wt}")
        shutil.rmtree(rdir, ignore_errors=True)
    json.dump(prev + out, open(os.path.join(VERIF, "findings", "fixed.json"), "w"), indent=1)


if __name__ == "__main__":
    main()
