"""Evaluate an independently written breaking change (patch.diff + demo.py):
 1. demo passes on the unchanged tree, fails with the patch; the unedited test suite passes with the patch
 2. which of our checks report a violation with the patch applied (scratch worktree, VERIF_REPO)
usage: try_seeded.py <dir with patch.diff and demo.py> <property id> [more property ids to run]
"""
import json
import os
import shutil
import subprocess
import sys

VERIF = os.path.dirname(os.path.dirname(os.path.abspath(__file__)))
PY = "/venv/bin/python"


def sh(cmd, **kw):
    return subprocess.run(cmd, shell=True, capture_output=True, text=True, **kw)


def main(argv):
    d, pids = os.path.abspath(argv[0]), argv[1:]
    name = os.path.basename(os.path.dirname(os.path.dirname(d))).replace("-out","") + os.path.basename(os.path.dirname(d)) + "-" + os.path.basename(d)
    wt = f"/tmp/ts-{name}"
    sh(f"git -C /repo worktree remove --force {wt}")
    sh(f"git -C /repo worktree add --detach {wt} HEAD")
    meta = {"dir": d, "properties_run": pids}
    try:
        env = dict(os.environ, PYTHONPATH=f"{wt}/src")
        a = subprocess.run([PY, os.path.join(d, "demo.py")], env=env, capture_output=True, text=True, cwd=wt, timeout=300)
        meta["demo_without_patch"] = a.returncode
        ap = sh(f"git -C {wt} apply {d}/patch.diff")
        meta["patch_applies"] = ap.returncode == 0
        if ap.returncode:
            print("PATCH DOES NOT APPLY", ap.stderr[:300])
            return 1
        b = subprocess.run([PY, os.path.join(d, "demo.py")], env=env, capture_output=True, text=True, cwd=wt, timeout=300)
        meta["demo_with_patch"] = b.returncode
        t = subprocess.run(f"{PY} -m pytest -q -p no:cacheprovider -n 4 2>&1 | tail -3", shell=True, env=env, capture_output=True, text=True, cwd=wt, timeout=900)
        meta["tests_with_patch"] = t.stdout.strip().splitlines()[-1] if t.stdout.strip() else "?"
        if "failed" in meta["tests_with_patch"]:
            # real sleeps under load: re-run serially once
            t = subprocess.run(f"{PY} -m pytest -q -p no:cacheprovider 2>&1 | tail -3", shell=True, env=env, capture_output=True, text=True, cwd=wt, timeout=900)
            meta["tests_with_patch"] = t.stdout.strip().splitlines()[-1]
        print(f"demo without patch: exit {a.returncode}; with patch: exit {b.returncode}; tests with patch: {meta['tests_with_patch']}")
        meta["checks"] = {}
        for pid in pids:
            rdir = f"/tmp/ts-replays-{name}"
            shutil.rmtree(rdir, ignore_errors=True)
            env2 = dict(os.environ, VERIF_REPO=wt, VERIF_NO_EVIDENCE="1", VERIF_REPLAY_DIR=rdir)
            cp = subprocess.run([os.path.join(VERIF, "check"), pid] + (["--tier", os.environ["TS_TIER"]] if os.environ.get("TS_TIER") else []), env=env2, capture_output=True, text=True, cwd=VERIF)
            rules = sorted({ln.strip().split(" detail=")[0] for ln in cp.stdout.splitlines() if ln.startswith("  rule=")})
            meta["checks"][pid] = {"exit": cp.returncode, "violations": rules}
            print(f"  {pid}: exit={cp.returncode} {'DETECTED' if cp.returncode == 1 else 'missed' if cp.returncode == 0 else 'HARNESS ERROR'} {rules[:4]}")
            if cp.returncode == 2:
                print("   ", cp.stderr.strip()[-300:])
            shutil.rmtree(rdir, ignore_errors=True)
        json.dump(meta, open(os.path.join(d, "evaluation.json"), "w"), indent=1)
    finally:
        sh(f"git -C /repo worktree remove --force {wt}")
    return 0


if __name__ == "__main__":
    sys.exit(main(sys.argv[1:]))
