"""rewrites §12 of DESIGN.md from selftest/mutants.py and seeded/*/meta.json"""
import glob
import json
import os
import sys

VERIF = os.path.dirname(os.path.dirname(os.path.abspath(__file__)))
sys.path.insert(0, VERIF)
from selftest.mutants import MUTANTS  # noqa: E402

by = {}
for name, pid, rel, old, new in MUTANTS:
    by.setdefault(pid, []).append(name)
metas = [(os.path.basename(os.path.dirname(d)), json.load(open(d))) for d in sorted(glob.glob(os.path.join(VERIF, "seeded", "*", "meta.json")))]
missed = [k for k, m in metas if m.get("strengthened")]
undetected = [k for k, m in metas if m.get("not_detected")]
res_file = os.path.join(VERIF, "selftest", "sensitivity_results.json")
note = ""
if os.path.exists(res_file):
    r = json.load(open(res_file))
    note = f" (last complete run recorded in `selftest/sensitivity_results.json`: {sum(x['detected'] for x in r)} of {len(r)} detected)"
L = []
L.append(f"""## 12. Which checks catch which changes

### 12.1 Deliberate breakages (`selftest/mutants.py`, applied by `selftest/sensitivity.py` to scratch copies)

{len(MUTANTS)} mutants: the **S** lists of §6 plus the revert of every repair of §7.1, plus three for the `send_error` fault
(`error_received()` treated as a connection loss: C04, C10; `error_received()` raising into the sender: C15; run on
their own after the last complete run, 3 of 3 detected). Each makes the quick check of its
property exit 1{note}.

| property | mutants (all detected by `./check <property>`) |
|---|---|""")
for pid in sorted(by):
    L.append(f"| {pid} | " + ", ".join(n.split("-", 1)[1] for n in by[pid]) + " |")
L.append(f"""
### 12.2 Independently written breaking changes (`seeded/<property>-<a..q>/`)

{len(metas)} changes were written by fresh sub-agents in eight rounds (a, b: first round; c, d: second round, where each
agent was additionally told in one line each what the first round had done, so as to do something else, and was
pushed towards multi-step and cross-feature conditions; e, f: third round, told about both earlier rounds and pushed
towards changes in *other* modules than the obvious one - codecs, `config.py` identity and matching helpers, the send
path, session storage - and towards effects that need state accumulated over a long history; h, i: fourth round, told
about all earlier ones and asked for lifecycle / ordering, aliasing / shared state, arithmetic / boundary and error-path
changes; k, l: fifth round, asked for changes to shared infrastructure that break the property through an indirect
path, changes that need several of something at once (peers, instances, connections, protocol objects in one process),
a long history or a large value, or that rest on a wrong assumption about the event loop; n, o: sixth round, asked for
one-to-five-line edits that break one corner of a dimension the property quantifies over, preferably one that needs a
precise coincidence; p, q: seventh round, asked to think adversarially about what a deterministic-simulation checker
hardened against all earlier changes would still overlook; r, s: eighth round, written after the `send_error` fault was added and asked for changes that need a failing send reported through `error_received()`; g, j, m: spare changes some agents delivered on top). An agent got only the text of one property and a scratch
worktree of `/repo` - nothing from `/verif`. Each change comes with `patch.diff`, a demonstration `demo.py` (passes on the
unchanged tree, fails with the patch) and `meta.json`. `tools/try_seeded.py` re-confirmed all of that in a scratch
worktree (demo both ways, unedited test suite green with the patch) and then ran the property's quick check against the
patched copy (`VERIF_REPO`; the patches were not applied to `/repo` itself because background sweeps were using it).

{len(metas) - len(missed) - len(undetected)} were detected at once. {len(missed)} were missed by the check as it stood; each of these led to a stronger
*workload* (never to a weaker oracle) and is detected now. **{len(undetected)} changes of the last round are not detected** by the check
of the property they were written for ({", ".join("`" + k + "`" for k in undetected)}): they need a user-supplied listener or
handler that raises or re-enters the library, a transport whose send fails or that delivers synchronously, several
sending threads, or (one) a matching rule the discovery model does not mirror - see §11 and the table rows. They stay in
`seeded/` with `"not_detected": true` so that the gap is on record; `tools/recheck_seeded.py` expects exactly these to pass. One miss (`C05-d`) also exposed a limitation
of the engine - connection loss closed both sockets, although the discovery endpoint has two transports - and fixing
that exposed the library defect repaired by the eleventh `fix:` commit.

| change | needs, in order to manifest | caught by | first attempt |
|---|---|---|---|""")
for k, m in metas:
    first = "missed -> " + m["strengthened"] if m.get("strengthened") else "NOT DETECTED" if m.get("not_detected") else "detected"
    if m.get("not_detected"):
        res = "- (" + m["result"][:300] + ")"
    else:
        res = m["result"].split("DETECTED afterwards:")[-1].strip() if m.get("strengthened") else m["result"].split(":", 1)[1].strip()
    if res.startswith("MISSED"):
        res = "the property's check after strengthening"
    L.append(f"| `{k}` {m['change']} | {m['needs_to_manifest']} | {res} | {first} |")
L.append("""
What the misses had in common: the oracle could already see the violation; the *workload* did not reach the condition
(two requesters - or one requester twice - inside one collection window before a stop; endpoint options in another
order; the other fields' wildcard values used as concrete ids; a destination first contacted after another one wrapped;
two destinations on one host; a method registered after its id was refused; 65 535 notifications to one destination;
connection loss of one transport only; a listener rejection before an acceptance; non-cyclic instances; ids that differ
in the minor version only; two SD ports on one host; TTL values built at run time and 194 days of virtual time; option
runs that match the tail of the option array; SD endpoint options on Subscribes; one eventgroup on two local endpoints;
stop and start in one loop iteration; a non-cyclic offerer with infinite TTLs; a second SD port on a sender's host and
offers that come and go inside session histories; more than 64 destinations; entries in front of the refreshing entry;
endpoint options in another order in the refresh; requesters that restart while an answer is pending; the datagram
protocol's own dispatch loop; a stop in the very iteration of a discovery; node stop / start inside session
histories and malformed messages in front of good ones in a datagram; several ports per destination host; event ids
with bit 15 set; several connections per process; crowds of several hundred senders; SD messages and bursts
beyond one 1400-byte datagram; options that change between the offers of one instance; 194 days of quiet; a second SD
stack in the same process; IPv6 and IPv4-mapped callers; payloads in a thousand pieces; objects built before the loop
runs; an operation a few loop iterations into the cascade an instant started; flag-clear session ids that repeat;
link-local IPv6 peers told apart by the scope id; a TTL below the cyclic period; timings changed after construction; session id 0 and SOME/IP client ids; handlers that are falsy callables or raise
exception subclasses; 64-70 entries per message; 70 queue destinations; 17-40 eventgroups at one server; a values dict
that is replaced; two instances
sharing service and instance id; a lost StopOffer followed by a restart within the TTL; empty event values; messages
with the unicast flag clear; peer restarts during the session-id soak; one endpoint in two eventgroups; type bytes
with the TP bit). Each is now generated on purpose and most are reported as probes in the evidence.
Some misses were not workload gaps: C17 accepted any payload value between trigger and transmission where the
library sends the value of the transmission instant (`C17-n`), C12 let a restarted instance answer during its initial
wait (`C12-l`), C17 had no liveness clause for cyclic rounds (`C17-h`), the runner ranked "other
exceptions in most runs" above reproduced violations and exited 2 instead of 1 (`C11-h`), and library state shared
between objects leaked from run to run inside a worker, so violations did not reproduce (`C18-h`; `lib.reset()` now
restores every mutable class attribute and module global of the library before each run).
""")
p = os.path.join(VERIF, "DESIGN.md")
s = open(p).read()
s = s[: s.index("## 12. Which checks catch which changes")].rstrip() + "\n\n" + "\n".join(L)
open(p, "w").write(s)
print(len(MUTANTS), len(metas), len(missed))
