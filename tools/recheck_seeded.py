"""Regression over the independently written breaking changes: apply each seeded/<id>/patch.diff to a scratch
worktree of /repo (never to /repo itself), run the quick check of the property it breaks against that copy and
require exit 1 (a VIOLATION line). usage: recheck_seeded.py [--json out.json] [id-prefix ...]"""
import glob
import json
import os
import shutil
import subprocess
import sys

VERIF = os.path.dirname(os.path.dirname(os.path.abspath(__file__)))


def sh(cmd):
    return subprocess.run(cmd, shell=True, capture_output=True, text=True)


def main(argv):
    out = None
    if "--json" in argv:
        out = argv[argv.index("--json") + 1]
        argv = [a for a in argv if a not in ("--json", out)]
    results = []
    missed = []
    for d in sorted(glob.glob(os.path.join(VERIF, "seeded", "*", ""))):
        name = os.path.basename(os.path.dirname(d))
        if argv and not any(name.startswith(a) for a in argv):
            continue
        meta = json.load(open(os.path.join(d, "meta.json")))
        pid = meta["breaks_property"]
        wt = f"/tmp/recheck-{name}"
        sh(f"git -C /repo worktree remove --force {wt}")
        sh(f"git -C /repo worktree add --detach {wt} HEAD")
        try:
            ap = sh(f"git -C {wt} apply {d}patch.diff")
            if ap.returncode:
                print(f"{name}: PATCH DOES NOT APPLY {ap.stderr[:200]}")
                missed.append(name)
                continue
            rdir = f"/tmp/recheck-replays-{name}"
            env = dict(os.environ, VERIF_REPO=wt, VERIF_NO_EVIDENCE="1", VERIF_REPLAY_DIR=rdir)
            cp = subprocess.run([os.path.join(VERIF, "check"), pid], env=env, capture_output=True, text=True, cwd=VERIF)
            rules = sorted({ln.strip().split(" site=")[0].replace("rule=", "") for ln in cp.stdout.splitlines() if ln.startswith("  rule=")})
            ok = cp.returncode == 1 and "VIOLATION property=" + pid in cp.stdout
            if meta.get("not_detected"):
                # on record as a gap (meta.json says why): the check is expected to pass; a detection is good news
                print(f"{name}: {pid} exit={cp.returncode} {'DETECTED (was recorded as not detected)' if ok else 'not detected, as recorded'}", flush=True)
                results.append({"change": name, "property": pid, "exit": cp.returncode, "detected": ok, "recorded_gap": True, "rules": rules})
                shutil.rmtree(rdir, ignore_errors=True)
                continue
            print(f"{name}: {pid} exit={cp.returncode} {'DETECTED' if ok else 'NOT DETECTED'} {' '.join(rules)}", flush=True)
            results.append({"change": name, "property": pid, "exit": cp.returncode, "detected": ok, "rules": rules})
            if not ok:
                missed.append(name)
            shutil.rmtree(rdir, ignore_errors=True)
        finally:
            sh(f"git -C /repo worktree remove --force {wt}")
    print("not detected:", missed)
    if out:
        json.dump(results, open(out, "w"), indent=1)
    return 1 if missed else 0


if __name__ == "__main__":
    sys.exit(main(sys.argv[1:]))
