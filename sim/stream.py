"""Engine `stream`: a real asyncio.StreamReader fed by a simulated peer at
virtual instants (chunking, EOF, reset); SOMEIPHeader.read / SOMEIPReader
consume it in a task of the simulated loop.

plan: {"engine":"stream","seed":..,"cfg":{"wrapper":bool},"hex":"..","cuts":[byte positions],"gap":seconds,
       "end":"eof"|"reset"|"open","limit":stream limit or None}
"""
import asyncio

from . import core, lib
from .lib import header


class Result:
    pass


def execute(plan):
    lib.reset()
    sim = core.new_sim(plan["seed"], {})
    lp = sim.loop
    data = bytes.fromhex(plan["hex"])
    cuts = sorted(set(c for c in plan.get("cuts", []) if 0 < c < len(data)))
    bounds = [0] + cuts + [len(data)]
    chunks = [data[a:b] for a, b in zip(bounds, bounds[1:]) if b > a]
    gap = plan.get("gap", 0.001)
    out = []
    ctx, tag = sim.new_context("R")
    state = {}

    async def consume(reader):
        rd = header.SOMEIPReader(reader) if plan.get("cfg", {}).get("wrapper") else None
        while True:
            try:
                m = await (rd.read() if rd else header.SOMEIPHeader.read(reader))
            except BaseException as exc:  # noqa: B902
                part = getattr(exc, "partial", None)
                sim.rec("read-error", "R", (type(exc).__module__ + "." + type(exc).__name__, None if part is None else len(part), getattr(exc, "expected", None)))
                return
            if m is None:
                sim.rec("read-error", "R", ("None", None, None))
                return
            sim.rec("read", "R", (m.service_id, m.method_id, m.client_id, m.session_id, m.protocol_version, m.interface_version, int(m.message_type), int(m.return_code), bytes(m.payload)))

    def setup():
        reader = asyncio.StreamReader(limit=plan.get("limit") or 2**16, loop=lp)
        state["reader"] = reader
        state["task"] = lp.create_task(consume(reader))
        t = plan.get("t0", 0.0)
        for i, ch in enumerate(chunks):
            t = t + (gap if i else 0.0)
            lp.call_at(t, feed, i, ch)
        end = plan.get("end", "eof")
        if end == "eof":
            lp.call_at(t + gap, feed_eof)
        elif end == "reset":
            lp.call_at(t + gap, feed_reset)

    def feed(i, ch):
        sim.rec("chunk", "peer", (i, len(ch)))
        sim.stats["chunks"] += 1
        state["reader"].feed_data(ch)

    def feed_eof():
        sim.rec("eof", "peer", None)
        sim.stats["eof"] += 1
        state["reader"].feed_eof()

    def feed_reset():
        sim.rec("reset", "peer", None)
        sim.stats["reset"] += 1
        state["reader"].set_exception(ConnectionResetError("simulated reset"))

    def other(k, o):
        """another connection of the same process (its own StreamReader and consumer): concurrent with the main one, or
        used up / abandoned before it. Its reads are logged under another actor and judged separately."""
        actor = f"R{k + 2}"
        odata = bytes.fromhex(o["hex"])
        ocuts = sorted(set(c for c in o.get("cuts", []) if 0 < c < len(odata)))
        ob = [0] + ocuts + [len(odata)]
        ochunks = [odata[a:b] for a, b in zip(ob, ob[1:]) if b > a]
        ogap = o.get("gap", 0.001)

        async def consume2(reader):
            rd = header.SOMEIPReader(reader) if o.get("wrapper") else None
            while True:
                try:
                    m = await (rd.read() if rd else header.SOMEIPHeader.read(reader))
                except BaseException as exc:  # noqa: B902
                    part = getattr(exc, "partial", None)
                    sim.rec("read-error", actor, (type(exc).__module__ + "." + type(exc).__name__, None if part is None else len(part), getattr(exc, "expected", None)))
                    return
                if m is None:
                    sim.rec("read-error", actor, ("None", None, None))
                    return
                sim.rec("read", actor, (m.service_id, m.method_id, m.client_id, m.session_id, m.protocol_version, m.interface_version, int(m.message_type), int(m.return_code), bytes(m.payload)))

        def setup2():
            reader = asyncio.StreamReader(limit=2**16, loop=lp)
            state[actor] = reader
            state[actor + "task"] = lp.create_task(consume2(reader))
            t = o.get("t0", 0.0)
            for i, ch in enumerate(ochunks):
                t = t + (ogap if i else 0.0)
                lp.call_at(t, lambda ch=ch: reader.feed_data(ch))
            if o.get("end", "eof") == "eof":
                lp.call_at(t + ogap, reader.feed_eof)
            elif o.get("end") == "reset":
                lp.call_at(t + ogap, lambda: reader.set_exception(ConnectionResetError("simulated reset")))

        octx, otag = sim.new_context(actor)
        sim.at(0.0, "op", (octx, setup2, (actor, "setup")))
        sim.stats["other_connections"] += 1

    for k, o in enumerate(plan.get("others", [])):
        other(k, o)
    sim.at(0.0, "op", (ctx, setup, ("R", "setup")))
    horizon = plan.get("t0", 0.0) + (len(chunks) + 3) * gap + 1.0
    for o in plan.get("others", []):
        horizon = max(horizon, o.get("t0", 0.0) + (len(o.get("cuts", [])) + 4) * o.get("gap", 0.001) + 1.0)
    sim.run(plan.get("until", horizon))
    res = Result()
    res.sim, res.log, res.stats = sim, sim.log, sim.stats
    res.op_exc, res.loop_exc, res.swallowed = [], sim.loop.exceptions, sim.swallowed
    res.iterations, res.sim_time = sim.loop.iteration, sim.loop._now
    res.data = data
    return res
