"""Imports the library under test from $VERIF_REPO/src (default /repo/src) and
installs the seams (module attributes only)."""
import os
import sys

REPO = os.environ.get("VERIF_REPO", "/repo")
SRC = os.path.join(REPO, "src")
if sys.path[0] != SRC:
    sys.path.insert(0, SRC)

import someip  # noqa: E402
import someip.header as header  # noqa: E402
import someip.config as config  # noqa: E402
import someip.sd as sd  # noqa: E402
import someip.service as service  # noqa: E402

assert os.path.realpath(someip.__file__).startswith(os.path.realpath(SRC)), (someip.__file__, SRC)

from . import core  # noqa: E402

core.install(sd)

_hash_counter = [0]


class DetSubscriber(sd.ServiceSubscriber):
    """same class, deterministic hash (AutoSubscribeServiceListener is a frozen
    dataclass that hashes its subscriber; id()-based hashes would make the
    iteration order of listener sets differ between runs of one seed)"""

    def __init__(self, *a, **kw):
        super().__init__(*a, **kw)
        _hash_counter[0] += 1
        self._det_hash = _hash_counter[0]

    def __hash__(self):
        return self._det_hash


sd.ServiceSubscriber = DetSubscriber


# ---- process-global state of the library: one run must not see what another left behind
# (class attributes and module globals that are mutable containers, functools caches). A snapshot is taken at import,
# every run starts from it. The unchanged library has no such state that changes; a changed one may.
import copy as _copy  # noqa: E402
import someip.utils as _utils  # noqa: E402

_MUTABLE = (dict, list, set, bytearray)
_snap = []
_caches = []
LEAKS = [0]


def _snapshot():
    seen = set()
    for mod in (header, config, sd, service, _utils):
        for name, val in list(vars(mod).items()):
            if name.startswith("__"):
                continue
            owners = [val]
            if isinstance(val, type) and getattr(val, "__module__", None) == mod.__name__:
                owners += [av for an, av in vars(val).items() if not an.startswith("__")]
            for o in owners:
                if hasattr(o, "cache_clear") and callable(o.cache_clear) and id(o) not in seen:
                    seen.add(id(o))
                    _caches.append(o)
                f = getattr(o, "__func__", None)
                if f is not None and hasattr(f, "cache_clear") and id(f) not in seen:
                    seen.add(id(f))
                    _caches.append(f)
                if isinstance(o, _MUTABLE) and id(o) not in seen:
                    seen.add(id(o))
                    _snap.append((o, _copy.copy(o)))


def _restore():
    for c in _caches:
        c.cache_clear()
    for obj, orig in _snap:
        if obj != orig:
            LEAKS[0] += 1
            if isinstance(obj, (list, bytearray)):
                obj[:] = orig
            else:
                obj.clear()
                obj.update(orig)


_snapshot()


def reset():
    _hash_counter[0] = 0
    _restore()
