"""Imports the library under test from $VERIF_REPO/src (default /repo/src) and
installs the seams (module attributes only)."""
import os
import sys

REPO = os.environ.get("VERIF_REPO", "/repo")
SRC = os.path.join(REPO, "src")
if sys.path[0] != SRC:
    sys.path.insert(0, SRC)

import someip  # noqa: E402
import someip.header as header  # noqa: E402
import someip.config as config  # noqa: E402
import someip.sd as sd  # noqa: E402
import someip.service as service  # noqa: E402

assert os.path.realpath(someip.__file__).startswith(os.path.realpath(SRC)), (someip.__file__, SRC)

from . import core  # noqa: E402

core.install(sd)

_hash_counter = [0]


class DetSubscriber(sd.ServiceSubscriber):
    """same class, deterministic hash (AutoSubscribeServiceListener is a frozen
    dataclass that hashes its subscriber; id()-based hashes would make the
    iteration order of listener sets differ between runs of one seed)"""

    def __init__(self, *a, **kw):
        super().__init__(*a, **kw)
        _hash_counter[0] += 1
        self._det_hash = _hash_counter[0]

    def __hash__(self):
        return self._det_hash


sd.ServiceSubscriber = DetSubscriber


def reset():
    _hash_counter[0] = 0
