"""Engine `single`: one real ServiceDiscoveryProtocol stack (optionally with a
SimpleService on a second port) + scripted rogue peers.

A plan is plain JSON:
  {"engine":"single","seed":int,"cfg":{...},"ops":[{...}],"until":float}
ops (absolute virtual times):
  {"k":"sd","t":..,"p":peer,"ch":"u"|"m","e":[entry specs],("sess":[flag,sid]),("uf":bool)}
  {"k":"raw","t":..,"p":peer,"ch":..,"hex":".."}        arbitrary datagram
  {"k":"preboot","t":..,"p":peer}                        peer restarts (session counters reset)
  {"k":"call","t":..,"f":name,"a":[...],("ph":"io"|"timer"|"late")}
  {"k":"busy","t":..,"d":seconds}
"""
import ipaddress

from . import core, refdec
from .core import NODE
from . import lib
from .lib import sd, config, header

GROUP = ("224.224.224.245", 30490)
NODE_ADDR = ("10.0.0.1", 30490)
SVC_ADDR = ("10.0.0.1", 30500)
PEERS = [("10.0.0.11", 30490), ("10.0.0.12", 30490), ("10.0.0.13", 30490), ("10.0.0.14", 30490),
         # two link-local IPv6 peers with one address and one port on two interfaces: only the scope id differs
         ("fe80::21", 30490, 0, 2), ("fe80::21", 30490, 0, 3)]
NODE_NAME = "N"


def skey(s):
    return (s.service_id, s.instance_id, s.major_version, s.minor_version)


def opt_key(o):
    """library option object -> reference tuple"""
    if isinstance(o, header.AbstractIPOption):
        kind = "ep" if isinstance(o, header.EndpointOption) else "mc" if isinstance(o, header.MulticastOption) else "sdep"
        return (kind, 4 if isinstance(o.address, ipaddress.IPv4Address) else 6, str(o.address), int(o.l4proto), o.port)
    if isinstance(o, header.SOMEIPSDLoadBalancingOption):
        return ("lb", o.priority, o.weight)
    if isinstance(o, header.SOMEIPSDConfigOption):
        return ("cfg", tuple(o.configs))
    if isinstance(o, header.SOMEIPSDUnknownOption):
        return ("unk", o.type, bytes(o.payload))
    return ("?", repr(o))


def subkey(s):
    return (s.service_id, s.instance_id, s.major_version, s.id, s.counter, tuple(sorted(opt_key(e) for e in s.endpoints)))


class CListener(sd.ClientServiceListener):
    def __init__(self, sim, name, hid):
        self.sim, self.name, self.hid = sim, name, hid

    def __hash__(self):
        return self.hid

    def service_offered(self, service, source):
        self.sim.rec("cb", NODE_NAME, ("offered", self.name, skey(service), source))

    def service_stopped(self, service, source):
        self.sim.rec("cb", NODE_NAME, ("stopped", self.name, skey(service), source))


class SListener(sd.ServerServiceListener):
    def __init__(self, sim, name, reject_keys=()):
        self.sim, self.name = sim, name
        self.reject_all = False
        self.reject_keys = set(map(tuple, reject_keys))  # (eventgroup, counter)

    def client_subscribed(self, subscription, source):
        rej = self.reject_all or (subscription.id, subscription.counter) in self.reject_keys
        self.sim.rec("cb", NODE_NAME, ("rejected" if rej else "subscribed", self.name, subkey(subscription), source, subscription.ttl))
        if rej:
            raise sd.NakSubscription

    def client_unsubscribed(self, subscription, source):
        self.sim.rec("cb", NODE_NAME, ("unsubscribed", self.name, subkey(subscription), source, subscription.ttl))


def spec_entry(spec):
    """JSON entry spec -> refdec.Entry"""
    k = spec[0]
    T = lambda x: tuple(tuple(o) if isinstance(o, list) else o for o in x)  # noqa: E731
    if k == "offer":
        _, svc, inst, major, minor, ttl = spec[:6]
        o1 = T(spec[6]) if len(spec) > 6 else ()
        o2 = T(spec[7]) if len(spec) > 7 else ()
        return refdec.offer(svc, inst, major, minor, ttl, _opts(o1), _opts(o2))
    if k == "find":
        _, svc, inst, major, minor, ttl = spec[:6]
        return refdec.find(svc, inst, major, minor, ttl)
    if k in ("sub", "suback"):
        _, svc, inst, major, eg, ttl, counter = spec[:7]
        o1 = T(spec[7]) if len(spec) > 7 else ()
        o2 = T(spec[8]) if len(spec) > 8 else ()
        e = refdec.subscribe(svc, inst, major, eg, ttl, counter, _opts(o1), _opts(o2))
        return e._replace(type=refdec.SUBACK) if k == "suback" else e
    raise ValueError(spec)


def _opts(seq):
    out = []
    for o in seq:
        o = tuple(o)
        if o and o[0] == "cfg":
            o = ("cfg", tuple((a, b) for a, b in o[1]))
        elif o and o[0] in ("unk", "raw") and isinstance(o[2], str):
            o = (o[0], o[1], bytes.fromhex(o[2]))
        out.append(o)
    return tuple(out)


def lib_option(o):
    k = o[0]
    if k in ("ep", "mc", "sdep"):
        _, ver, addr, l4, port = o
        cls = {
            ("ep", 4): header.IPv4EndpointOption,
            ("mc", 4): header.IPv4MulticastOption,
            ("sdep", 4): header.IPv4SDEndpointOption,
            ("ep", 6): header.IPv6EndpointOption,
            ("mc", 6): header.IPv6MulticastOption,
            ("sdep", 6): header.IPv6SDEndpointOption,
        }[(k, ver)]
        try:
            l4 = header.L4Protocols(l4)
        except ValueError:
            pass
        return cls(address=ipaddress.ip_address(addr), l4proto=l4, port=port)
    if k == "lb":
        return header.SOMEIPSDLoadBalancingOption(priority=o[1], weight=o[2])
    if k == "cfg":
        return header.SOMEIPSDConfigOption(configs=tuple(tuple(x) for x in o[1]))
    if k == "unk":
        return header.SOMEIPSDUnknownOption(type=o[1], payload=o[2])
    raise ValueError(o)


def lib_entry(e):
    """refdec.Entry -> library SOMEIPSDEntry (resolved options)"""
    return header.SOMEIPSDEntry(
        sd_type=header.SOMEIPSDEntryType(e.type),
        service_id=e.service,
        instance_id=e.instance,
        major_version=e.major,
        ttl=e.ttl,
        minver_or_counter=e.value,
        options_1=tuple(lib_option(o) for o in e.opts1),
        options_2=tuple(lib_option(o) for o in e.opts2),
    )


class Rogue:
    """a scripted peer: keeps outgoing session counters like a real sender"""

    def __init__(self, addr):
        self.addr = addr
        self.reset()

    def reset(self):
        self.sess = {"u": [True, 1], "m": [True, 1]}

    def next(self, ch):
        flag, sid = self.sess[ch]
        if sid >= 0xFFFF:
            self.sess[ch] = [False, 1]
        else:
            self.sess[ch] = [flag, sid + 1]
        return flag, sid

    def set_next(self, ch, flag, sid):
        self.sess[ch] = [flag, sid]


class Stack:
    """the real library objects of the node"""

    def __init__(self, sim, cfg):
        self.sim = sim
        self.cfg = cfg
        self.ctx, self.tag = sim.new_context(NODE_NAME)
        self.ctx.run(self._build)

    def _build(self):
        sim, cfg = self.sim, self.cfg
        # cfg["timings"] are the values in force while the system runs. cfg["ctor_timings"] (optional) are the values the
        # Timings object held while the stack was constructed; they are replaced on that same object before anything
        # starts (the application adjusts `prot.timings.X = ...` after creating its endpoints, as the library's tests do)
        ctor = cfg.get("ctor_timings") or {}
        timings = sd.Timings(**{**cfg.get("timings", {}), **ctor})
        self.prot = prot = sd.ServiceDiscoveryProtocol(GROUP, timings=timings)
        for name in ctor:
            setattr(timings, name, cfg.get("timings", {}).get(name, getattr(sd.Timings(), name)))
        self.transport = prot.transport = core.SimTransport(sim, NODE_NAME, NODE_ADDR)
        self.adapter_u = sd.DatagramProtocolAdapter(prot, is_multicast=False)
        self.adapter_m = sd.DatagramProtocolAdapter(prot, is_multicast=True)
        self.transport.proto = self.adapter_u
        sim.open_socket(NODE_NAME, NODE_ADDR, "u", self.adapter_u.datagram_received, self.ctx, self.tag)
        sim.open_socket(NODE_NAME, NODE_ADDR, "m", self.adapter_m.datagram_received, self.ctx, self.tag, group=GROUP)
        self.filters = [config.Service(*f) for f in cfg.get("filters", [])]
        self.clisteners = {}
        self.registered = {}  # listener name -> ("f", filter idx) | ("all",)
        self.slisteners = []
        self.instances = []
        for i, ins in enumerate(cfg.get("instances", [])):
            svc = config.Service(
                ins["svc"],
                ins["inst"],
                ins["major"],
                ins["minor"],
                options_1=tuple(lib_option(tuple(o)) for o in ins.get("opts", [])),
                eventgroups=frozenset(ins.get("egs", [])),
            )
            lst = SListener(sim, f"S{i}", ins.get("reject_keys", ()))
            self.slisteners.append(lst)
            t = timings
            if "timings" in ins:
                t = sd.Timings(**{**cfg.get("timings", {}), **ins["timings"]})
            self.instances.append(sd.ServiceInstance(svc, lst, prot.announcer, t))
        self.announced = set()
        self.eventgroups = [
            config.Eventgroup(
                e["svc"], e["inst"], e["major"], e["eg"], tuple(e["sockname"]), header.L4Protocols[e.get("proto", "UDP")]
            )
            for e in cfg.get("eventgroups", [])
        ]
        self.helper = None
        h = cfg.get("helper")
        if h:
            Svc = type("HelperService", (lib.service.SimpleService,), {"service_id": h["svc"], "version_major": h["major"], "version_minor": h["minor"]})
            self.helper = Svc(h["inst"])
            self.helper.transport = core.SimTransport(sim, NODE_NAME, SVC_ADDR)
            self.helper_announced = False
        self.service = None
        sc = cfg.get("service")
        if sc:
            Svc = type("SimService", (lib.service.SimpleService,), {"service_id": sc["svc"], "version_major": sc["major"], "version_minor": sc["minor"]})
            self.service = svc = Svc(sc["inst"])
            svc.transport = core.SimTransport(sim, NODE_NAME, SVC_ADDR)
            su = sd.DatagramProtocolAdapter(svc, is_multicast=False)
            sm = sd.DatagramProtocolAdapter(svc, is_multicast=True)
            sim.open_socket(NODE_NAME, SVC_ADDR, "u", su.datagram_received, self.ctx, self.tag)
            sim.open_socket(NODE_NAME, SVC_ADDR, "m", sm.datagram_received, self.ctx, self.tag, group=("224.224.224.246", 30500))
            for mid, kind in sc.get("methods", {}).items():
                svc.register_method(int(mid), self._handler(int(mid), kind))
        self.subscribed = set()
        self.findsub = set()
        self.conn_lost = False
        self.lost_channels = set()
        self.disc_started = False
        hooks = cfg.get("wrap")
        if hooks:
            self._wrap(hooks)

    def _wrap(self, hooks):
        """recording wrappers on instances (never on classes, never in /repo)"""
        sim, prot = self.sim, self.prot
        if "queue_send" in hooks:
            orig = prot.announcer.queue_send

            def queue_send(entry, remote=None):
                sim.rec("queue", NODE_NAME, (remote, entry_key(entry)))
                return orig(entry, remote=remote)

            prot.announcer.queue_send = queue_send
        if "reboot" in hooks:
            for part in ("discovery", "subscriber", "announcer"):
                obj = getattr(prot, part)
                orig = obj.reboot_detected

                def rd(addr, _orig=orig, _part=part):
                    sim.rec("reboot-detected", NODE_NAME, (_part, addr))
                    return _orig(addr)

                obj.reboot_detected = rd

    def _handler(self, mid, kind):
        sim = self.sim

        def handler(msg, addr):
            sim.rec("method", NODE_NAME, (mid, kind, addr))
            if kind in ("echo", "echo-obj"):
                return bytes(msg.payload)
            if kind == "empty":
                return b""
            if kind == "none":
                return None
            if kind == "malformed":
                raise lib.service.MalformedMessageError("scripted")
            if kind == "malformed-sub":
                raise _PayloadTooShort("scripted")  # an application's own refinement of the library's exception
            raise core.HarnessError(kind)

        if kind == "echo-obj":
            # a handler that is a callable object and happens to be falsy (a call recorder derived from list)
            class CallLog(list):
                def __call__(self, msg, addr):
                    return handler(msg, addr)

            return CallLog()
        return handler

    def svc_setup(self):
        """inside the running loop: eventgroups with an interval create their task on construction"""
        sc = self.cfg["service"]
        self.evgroups = {}
        for g in sc.get("eventgroups", []):
            eg = lib.service.SimpleEventgroup(self.service, g["id"], interval=g.get("interval"))
            for ev, hx in g.get("values", {}).items():
                eg.values[int(ev)] = bytes.fromhex(hx)
            self.service.register_eventgroup(eg)
            self.evgroups[g["id"]] = eg
        self.service.start_announce(self.prot.announcer)
        # recording wrappers on the instance: what the SD layer tells the service
        svc, sim = self.service, self.sim
        orig_sub, orig_unsub = svc.client_subscribed, svc.client_unsubscribed

        def client_subscribed(subscription, source):
            try:
                orig_sub(subscription, source)
            except sd.NakSubscription:
                sim.rec("cb", NODE_NAME, ("rejected", "SVC", subkey(subscription), source, subscription.ttl))
                raise
            sim.rec("cb", NODE_NAME, ("subscribed", "SVC", subkey(subscription), source, subscription.ttl))

        def client_unsubscribed(subscription, source):
            sim.rec("cb", NODE_NAME, ("unsubscribed", "SVC", subkey(subscription), source, subscription.ttl))
            orig_unsub(subscription, source)

        svc.client_subscribed, svc.client_unsubscribed = client_subscribed, client_unsubscribed

    # -- ops
    def clistener(self, name):
        if name not in self.clisteners:
            self.clisteners[name] = CListener(self.sim, name, 1000 + len(self.clisteners))
        return self.clisteners[name]

    def call(self, f, a):
        prot = self.prot
        d = prot.discovery
        if f == "start":
            if prot.announcer.started or prot.subscriber.alive or self.conn_lost or self.disc_started:
                return "skip"
            self.disc_started = True
            prot.start()
        elif f == "stop":
            self.disc_started = False
            prot.stop()
        elif f == "conn_lost":
            # a=[] : both sockets go; a=["u"] / ["m"]: only that transport reports the loss, the other keeps receiving
            which = a[0] if a else "both"
            if which in self.lost_channels or "both" in self.lost_channels:
                return "skip"
            self.lost_channels.add(which)
            self.conn_lost = True
            if which == "both":
                self.sim.close_sockets(NODE_NAME)
                self.adapter_u.connection_lost(None)
            else:
                sock = self.sim.sockets.pop((NODE_ADDR, which), None)
                if sock is not None:
                    sock.queue.clear()
                    for g in self.sim.groups.values():
                        if sock in g:
                            g.remove(sock)
                (self.adapter_u if which == "u" else self.adapter_m).connection_lost(None)
        elif f == "watch":
            fi, name = a
            if name in self.registered:
                return "skip"
            self.registered[name] = ("f", fi)
            d.watch_service(self.filters[fi], self.clistener(name))
        elif f == "unwatch":
            fi, name = a
            if self.registered.get(name) != ("f", fi):
                return "skip"
            del self.registered[name]
            d.stop_watch_service(self.filters[fi], self.clistener(name))
        elif f == "watch_all":
            (name,) = a
            if name in self.registered:
                return "skip"
            self.registered[name] = ("all",)
            d.watch_all_services(self.clistener(name))
        elif f == "unwatch_all":
            (name,) = a
            if self.registered.get(name) != ("all",):
                return "skip"
            del self.registered[name]
            d.stop_watch_all_services(self.clistener(name))
        elif f == "find_subscribe":
            (ei,) = a
            if ei in self.findsub:
                return "skip"
            self.findsub.add(ei)
            d.find_subscribe_eventgroup(self.eventgroups[ei])
        elif f == "stop_find_subscribe":
            (ei,) = a
            if ei not in self.findsub:
                return "skip"
            self.findsub.discard(ei)
            d.stop_find_subscribe_eventgroup(self.eventgroups[ei])
        elif f == "announce":
            (i,) = a
            if i in self.announced:
                return "skip"
            self.announced.add(i)
            prot.announcer.announce_service(self.instances[i])
        elif f == "stop_announce":
            (i,) = a
            if i not in self.announced:
                return "skip"
            self.announced.discard(i)
            prot.announcer.stop_announce_service(self.instances[i])
        elif f == "helper_start_announce":
            if self.helper_announced:
                return "skip"
            self.helper_announced = True
            self.helper.start_announce(prot.announcer)
        elif f == "helper_stop_announce":
            if not self.helper_announced:
                return "skip"
            self.helper_announced = False
            self.helper.stop_announce(prot.announcer)
        elif f == "ann_start":
            if prot.announcer.started or self.conn_lost:
                return "skip"
            prot.announcer.start()
        elif f == "ann_stop":
            prot.announcer.stop()
        elif f == "disc_start":
            if self.disc_started:
                return "skip"  # start() on a running discovery is API misuse, not a property subject
            self.disc_started = True
            d.start()
        elif f == "disc_stop":
            self.disc_started = False
            d.stop()
        elif f == "sub_start":
            prot.subscriber.start()
        elif f == "sub_stop":
            prot.subscriber.stop()
        elif f == "subscribe":
            ei, pi = a
            if (ei, pi) in self.subscribed:
                return "skip"
            self.subscribed.add((ei, pi))
            prot.subscriber.subscribe_eventgroup(self.eventgroups[ei], PEERS[pi])
        elif f == "stop_subscribe":
            ei, pi = a
            if (ei, pi) not in self.subscribed:
                return "skip"
            self.subscribed.discard((ei, pi))
            prot.subscriber.stop_subscribe_eventgroup(self.eventgroups[ei], PEERS[pi])
        elif f == "reject":
            i, flag = a
            self.slisteners[i].reject_all = bool(flag)
        elif f == "queue_send":
            spec, dest = a
            remote = None if dest is None else PEERS[dest] if isinstance(dest, int) else (dest[0], dest[1])
            prot.announcer.queue_send(lib_entry(spec_entry(spec)), remote=remote)
        elif f == "register_method":
            mid, kind = a
            self.service.register_method(mid, self._handler(mid, kind))
        elif f == "svc_setup":
            self.svc_setup()
        elif f == "unsubscribe_direct":
            # what tests/test_service.py::test_unsubscribe_unknown does: the listener interface called for a subscription it never saw
            g, epspec, counter, src = a
            sub = sd.EventgroupSubscription(service_id=self.service.service_id, instance_id=self.service.instance_id, major_version=self.service.version_major,
                                            id=g, counter=counter, ttl=3, endpoints=frozenset([lib_option(tuple(epspec))]))
            self.service.client_unsubscribed(sub, PEERS[src])
        elif f == "set_value":
            g, ev, hx = a
            self.evgroups[g].values[ev] = bytes.fromhex(hx)
        elif f == "rebind_values":
            # a new dict object with the old contents plus this value (assigning `evgrp.values = {...}`)
            g, ev, hx = a
            new = dict(self.evgroups[g].values)
            new[ev] = bytes.fromhex(hx)
            self.evgroups[g].values = new
        elif f == "notify_once":
            g, evs = a
            self.evgroups[g].notify_once(list(evs))
        elif f == "send_burst":
            specs, dest, count = a
            ents = [lib_entry(spec_entry(x)) for x in specs]
            remote = None if dest is None else PEERS[dest] if isinstance(dest, int) else (dest[0], dest[1])
            for _ in range(count):
                prot.send_sd(ents, remote=remote)
        elif f == "send_sd":
            specs, dest = a
            prot.send_sd([lib_entry(spec_entry(s)) for s in specs], remote=None if dest is None else PEERS[dest])
        else:
            raise core.HarnessError(f"unknown call {f}")
        return None


def entry_key(e):
    """library entry -> reference Entry tuple (for queue records)"""
    return (
        int(e.sd_type),
        e.service_id,
        e.instance_id,
        e.major_version,
        e.ttl,
        e.minver_or_counter,
        tuple(opt_key(o) for o in e.options_1),
        tuple(opt_key(o) for o in e.options_2),
    )


class Result:
    pass


class _PayloadTooShort(lib.service.MalformedMessageError):
    pass


NEIGHBOUR_ADDR = ("10.0.0.5", 30490)


def _neighbour(sim, ncfg):
    """a second, independent SD stack in the same process (another interface, another address family): it offers a
    service of its own with short cyclic offers and answers whoever asks; nothing of it may show up in the node's traffic"""
    ctx, tag = sim.new_context("M")

    def build():
        timings = sd.Timings(**ncfg.get("timings", {}))
        prot = sd.ServiceDiscoveryProtocol(GROUP, timings=timings)
        prot.transport = core.SimTransport(sim, "M", NEIGHBOUR_ADDR, actor="M")
        au = sd.DatagramProtocolAdapter(prot, is_multicast=False)
        am = sd.DatagramProtocolAdapter(prot, is_multicast=True)
        sim.open_socket("M", NEIGHBOUR_ADDR, "u", au.datagram_received, ctx, tag, actor="M")
        sim.open_socket("M", NEIGHBOUR_ADDR, "m", am.datagram_received, ctx, tag, group=GROUP, actor="M")
        ids = ncfg.get("svc", [0x7A7A, 1, 1, 0])
        svc = config.Service(*ids, options_1=tuple(lib_option(tuple(o)) for o in ncfg.get("opts", [])), eventgroups=frozenset([1]))
        inst = sd.ServiceInstance(svc, sd.ServerServiceListener(), prot.announcer, timings)
        prot.announcer.announce_service(inst)
        sim.keep.append(prot)
        return prot

    prot = ctx.run(build)
    sim.at(ncfg.get("start_at", 0.0), "op", (ctx, prot.start, ("M", "call", -1, "start", ())))


def execute(plan):
    """run one plan; returns Result(log, stats, sim, errors...)"""
    lib.reset()
    cfg = plan.get("cfg", {})
    simcfg = {
        "sock_flip": cfg.get("sock_flip"),
        "uniform": cfg.get("uniform"),
        # cfg["send_errors"] = [{t0, t1, rate}]: windows in which sendto() of the node under test fails (see NetFaults.send_error)
        "net": {"latency": cfg.get("latency", 0.0), "windows": [dict(w, kind="senderr", node=NODE_ADDR[0]) for w in cfg.get("send_errors", [])]},
        "max_iterations": cfg.get("max_iterations", 200000),
        "mc_loop": cfg.get("mc_loop", False),
        "trace_timers": cfg.get("trace_timers", False),
        "resolver": cfg.get("resolver"),
    }
    sim = core.new_sim(plan["seed"], simcfg)
    st = Stack(sim, cfg)
    if cfg.get("neighbour"):
        _neighbour(sim, cfg["neighbour"])
    rogues = [Rogue(a) for a in PEERS]
    alt_rogues = {}
    op_exc = []

    if st.service is not None:
        sim.at(0.0, "op", (st.ctx, st.svc_setup, (NODE_NAME, "call", -1, "svc_setup", ())))
    ops = sorted(enumerate(plan["ops"]), key=lambda x: (x[1]["t"], x[0]))
    for idx, op in ops:
        k, t = op["k"], op["t"]
        if k == "sd":
            r = rogues[op["p"]]
            if "port" in op:
                # another SD endpoint on the same host: its own session counters
                key = (op["p"], op["port"])
                if key not in alt_rogues:
                    alt_rogues[key] = Rogue((r.addr[0], op["port"]))
                r = alt_rogues[key]
            if "src" in op:
                # any sockaddr (e.g. the 4-tuple of a link-local IPv6 peer with its scope id): its own session counters
                key = tuple(op["src"])
                if key not in alt_rogues:
                    alt_rogues[key] = Rogue(key)
                r = alt_rogues[key]
            if "sess" in op:
                flag, sid = op["sess"]
                flag = bool(flag)
            else:
                flag, sid = r.next(op["ch"])
            entries = [spec_entry(s) for s in op["e"]]
            data = refdec.enc_sd_message(entries, sid, reboot=flag, unicast=op.get("uf", True))
            if "client" in op:
                data = data[:8] + int(op["client"]).to_bytes(2, "big") + data[10:]  # the SOME/IP client id of the SD message
            if "e2" in op:
                # a second SD message coalesced into the same datagram (TR_SOMEIP_00140), with the sender's next session id
                flag2, sid2 = (flag, sid + 1) if "sess" in op else r.next(op["ch"])
                data += refdec.enc_sd_message([spec_entry(s) for s in op["e2"]], sid2, reboot=flag2, unicast=op.get("uf", True))
            sim.inject(t, r.addr, NODE_ADDR, op["ch"], data)
        elif k == "raw":
            sim.inject(t, rogues[op["p"]].addr, SVC_ADDR if op.get("to") == "svc" else NODE_ADDR, op["ch"], bytes.fromhex(op["hex"]))
        elif k == "req":
            # SOME/IP message(s) for the service endpoint, coalesced into one datagram
            data = b"".join(
                refdec.enc_someip(m["svc"], m["method"], m["client"], m["session"], m["iface"], m["mtype"], m["rc"], bytes.fromhex(m.get("payload", "")))
                for m in op["msgs"]
            ) + bytes.fromhex(op.get("tail", ""))
            src = rogues[op["p"]].addr if "port" not in op else (rogues[op["p"]].addr[0], op["port"])
            if "src" in op:
                src = tuple(op["src"])  # any sockaddr, e.g. the 4-tuple of an IPv6 (or IPv4-mapped) peer
            sim.inject(t, src, SVC_ADDR, op["ch"], data)
        elif k == "preboot":
            rogues[op["p"]].reset()
        elif k == "busy":
            sim.at(t, "busy", op["d"])
        elif k == "call":
            f, a = op["f"], op.get("a", [])

            def fn(f=f, a=a, idx=idx):
                try:
                    r = st.call(f, a)
                    if r == "skip":
                        sim.rec("op-skip", NODE_NAME, (idx, f))
                except core.HarnessError:
                    raise
                except Exception as exc:  # the API call itself raised
                    op_exc.append((idx, f, exc))
                    sim.rec("op-exception", NODE_NAME, (idx, f, type(exc).__name__, core._where(exc)))

            ph = op.get("ph", "io")
            label = (NODE_NAME, "call", idx, f, _j(a))
            defer = op.get("defer", 0)  # loop iterations after the chosen phase of instant t
            if ph == "io":
                if defer:
                    sim.at(t, "op-deferred", (st.ctx, defer, fn, label))
                else:
                    sim.at(t, "op", (st.ctx, fn, label))
            else:
                mk = sim.loop.call_at if ph == "timer" else sim.loop.call_at_late
                if defer:
                    mk(t, sim._hop, defer, fn, label, context=st.ctx)
                else:
                    mk(t, sim._run_op, fn, label, context=st.ctx)
        else:
            raise core.HarnessError(f"unknown op kind {k}")
    sim.run(plan["until"])
    res = Result()
    res.sim, res.log, res.stats = sim, sim.log, sim.stats
    res.op_exc = op_exc
    res.loop_exc = sim.loop.exceptions
    res.swallowed = sim.swallowed
    res.iterations = sim.loop.iteration
    res.sim_time = sim.loop._now
    res.timer_log = sim.loop.timer_log
    return res


def _j(a):
    if isinstance(a, list):
        return tuple(_j(x) for x in a)
    return a
