"""Check driver: seeded search over plans on 16 worker interpreters,
minimisation, replay files, known findings, evidence.

exit 0 = property held on everything explored (known findings are printed)
exit 1 = `VIOLATION property=<id> replay=<path>` for a violation not listed
exit 2 = harness error (never to be read as a verdict)
"""
import faulthandler
import gc
import hashlib
import importlib
import json
import os
import subprocess
import sys
import time
import traceback

VERIF = os.path.dirname(os.path.dirname(os.path.abspath(__file__)))
PY = sys.executable
NPROC = int(os.environ.get("VERIF_WORKERS", "16"))


# counters of Sim.stats that are injected faults / schedule perturbations (the rest is plain traffic)
FAULT_KINDS = {
    "busy", "sock_flip", "multi_socket_iteration", "drop", "dup", "delay", "partition_drop", "crash", "stall", "inject",
    "slow_resolver", "chunks", "eof", "reset", "dgram_to_dead_socket", "swallowed", "send_error",
}


def load_prop(pid):
    return importlib.import_module(f"props.{pid.lower()}")


def engine_for(plan):
    return importlib.import_module(f"sim.{plan['engine']}")


def run_plan(prop, plan):
    """-> (verdict, result). verdict: dict(violations=[(rule, detail)], nontrivial, probes, states)"""
    eng = engine_for(plan)
    res = eng.execute(plan)
    verdict = prop.check(plan, res)
    return verdict, res


def plan_size(plan):
    return (len(plan.get("ops", [])) + len(plan.get("faults", [])), len(json.dumps(plan)))


# ------------------------------------------------------------------ minimisation
def _fails(prop, plan, rule):
    try:
        v, res = run_plan(prop, plan)
    except Exception:
        return None
    for r, d in v["violations"]:
        if r == rule:
            return (v, res)
    return None


def minimise(prop, plan, rule, deadline):
    """ddmin over the op list (and the fault list), keeping `rule` failing"""
    best = plan
    for field in ("ops", "faults"):
        items = list(best.get(field, []))
        if not items:
            continue
        n = 2
        while len(items) >= 2 and time.time() < deadline:
            chunk = max(1, len(items) // n)
            reduced = False
            for i in range(0, len(items), chunk):
                cand_items = items[:i] + items[i + chunk :]
                cand = dict(best)
                cand[field] = cand_items
                if _fails(prop, cand, rule):
                    items = cand_items
                    best = cand
                    n = max(n - 1, 2)
                    reduced = True
                    break
                if time.time() > deadline:
                    break
            if not reduced:
                if chunk == 1:
                    break
                n = min(len(items), n * 2)
        # single-item removal to a 1-minimal list
        i = 0
        while i < len(items) and time.time() < deadline:
            cand_items = items[:i] + items[i + 1 :]
            cand = dict(best)
            cand[field] = cand_items
            if _fails(prop, cand, rule):
                items = cand_items
                best = cand
            else:
                i += 1
    simp = getattr(prop, "simplify", None)
    if simp:
        for cand in simp(best):
            if time.time() > deadline:
                break
            if _fails(prop, cand, rule):
                best = cand
    return best


# ------------------------------------------------------------------ worker
def worker_main(argv):
    pid, tier, seed, k, W, out = argv[0], argv[1], int(argv[2]), int(argv[3]), int(argv[4]), argv[5]
    faulthandler.enable()
    sys.path.insert(0, VERIF)
    prop = load_prop(pid)
    total, wall = prop.budget(tier)
    if os.environ.get("VERIF_BUDGET_S"):
        wall = float(os.environ["VERIF_BUDGET_S"])
        total = 1 << 60
    if os.environ.get("VERIF_RUNS"):
        total = int(os.environ["VERIF_RUNS"])
    faulthandler.dump_traceback_later(wall * 3 + 120, exit=True)
    t0 = time.time()
    gc.disable()
    agg = {
        "evaluations": 0,
        "nontrivial": 0,
        "signatures": set(),
        "states": set(),
        "stats": {},
        "probes": {},
        "classes": {},
        "sim_seconds": 0.0,
        "iterations": 0,
        "failures": [],
        "samples": [],
        "harness_errors": [],
        "aborted_foreign": 0,
        "first_idx": None,
        "last_idx": None,
        "complete": True,
    }
    seen_fail = {}
    idx = k
    n = 0
    while idx < total:
        if time.time() - t0 > wall:
            agg["complete"] = False
            break
        try:
            plan = prop.gen(seed, idx, tier)
        except StopIteration:
            break
        if plan is None:
            idx += W
            continue
        try:
            verdict, res = run_plan(prop, plan)
        except Exception as exc:
            agg["harness_errors"].append({"idx": idx, "error": repr(exc), "tb": traceback.format_exc()[-2000:]})
            idx += W
            if len(agg["harness_errors"]) > 5:
                break
            continue
        agg["evaluations"] += 1
        if agg["first_idx"] is None:
            agg["first_idx"] = idx
        agg["last_idx"] = idx
        cls = plan.get("class", "default")
        agg["classes"][cls] = agg["classes"].get(cls, 0) + 1
        if verdict.get("foreign"):
            agg["aborted_foreign"] += 1
        if verdict.get("nontrivial"):
            agg["nontrivial"] += 1
            agg["signatures"].add(res.sim.signature())
        for s in verdict.get("states", ()):
            agg["states"].add(s)
        for kk, vv in res.stats.items():
            agg["stats"][kk] = agg["stats"].get(kk, 0) + vv
        for kk, vv in verdict.get("probes", {}).items():
            agg["probes"][kk] = agg["probes"].get(kk, 0) + vv
        agg["sim_seconds"] += res.sim_time
        agg["iterations"] += res.iterations
        if len(agg["samples"]) < 2 and verdict.get("nontrivial") and (idx // W) % 7 == 0:
            agg["samples"].append(plan)
        for rule, detail in verdict["violations"]:
            if rule in seen_fail and seen_fail[rule] >= 3:
                continue
            seen_fail[rule] = seen_fail.get(rule, 0) + 1
            small = minimise(prop, plan, rule, time.time() + prop.MINIMISE_S)
            f = _fails(prop, small, rule)
            if not f:
                small, f = plan, _fails(prop, plan, rule)
            if not f:
                agg["harness_errors"].append({"idx": idx, "error": f"violation of {rule} did not reproduce in-process"})
                continue
            v2, r2 = f
            d2 = [d for r, d in v2["violations"] if r == rule][0]
            site = prop.site(rule, small, d2)
            agg["failures"].append(
                {
                    "rule": rule,
                    "site": site,
                    "detail": d2,
                    "plan": small,
                    "orig_idx": idx,
                    "orig_ops": len(plan.get("ops", [])),
                    "digest": r2.sim.digest(),
                    "hashseed": os.environ.get("PYTHONHASHSEED"),
                }
            )
        n += 1
        if n % 256 == 0:
            gc.collect()
        idx += W
    agg["signatures"] = sorted(agg["signatures"])
    agg["states"] = sorted(agg["states"])
    agg["wall"] = time.time() - t0
    with open(out, "w") as f:
        json.dump(agg, f)
    return 0


# ------------------------------------------------------------------ known findings
def load_known():
    p = os.path.join(VERIF, "known_findings.json")
    if not os.path.exists(p):
        return []
    with open(p) as f:
        return json.load(f)["findings"]


def match_known(known, pid, rule, site):
    for e in known:
        if e.get("status") == "known" and e["property"] == pid and e["rule"] == rule and e["site"] == site:
            return e
    return None


def repo_tree_hash():
    try:
        out = subprocess.run(
            "cd %s && (git rev-parse HEAD; git diff HEAD -- src | sha256sum)" % os.environ.get("VERIF_REPO", "/repo"),
            shell=True,
            capture_output=True,
            text=True,
            timeout=20,
        ).stdout.split()
        return out[0][:12] + "+" + out[1][:8]
    except Exception:
        return "unknown"


# ------------------------------------------------------------------ main
def check_main(pid, tier, seed):
    sys.path.insert(0, VERIF)
    prop = load_prop(pid)
    t0 = time.time()
    tmp = os.path.join(VERIF, ".work", f"{pid}-{tier}-{os.getpid()}")
    os.makedirs(tmp, exist_ok=True)
    procs = []
    hashseeds = getattr(prop, "HASHSEEDS", None)
    for k in range(NPROC):
        env = dict(os.environ)
        hs = "0"
        if hashseeds and k >= NPROC - len(hashseeds):
            hs = str(hashseeds[k - (NPROC - len(hashseeds))])
        env["PYTHONHASHSEED"] = hs
        out = os.path.join(tmp, f"w{k}.json")
        p = subprocess.Popen(
            [PY, os.path.join(VERIF, "sim", "runner.py"), "--worker", pid, tier, str(seed), str(k), str(NPROC), out],
            env=env,
            cwd=VERIF,
            stdout=subprocess.PIPE,
            stderr=subprocess.PIPE,
        )
        procs.append((k, p, out, hs))
    total, wall = prop.budget(tier)
    if os.environ.get("VERIF_BUDGET_S"):
        wall = float(os.environ["VERIF_BUDGET_S"])
    hard = wall * 3 + 180
    harness_errors = []
    aggs = []
    for k, p, out, hs in procs:
        try:
            so, se = p.communicate(timeout=max(5, hard - (time.time() - t0)))
        except subprocess.TimeoutExpired:
            p.kill()
            so, se = p.communicate()
            harness_errors.append(f"worker {k} timed out")
            continue
        if p.returncode != 0 or not os.path.exists(out):
            harness_errors.append(f"worker {k} exit {p.returncode}: {se.decode(errors='replace')[-1500:]}")
            continue
        with open(out) as f:
            a = json.load(f)
        a["hashseed"] = hs
        aggs.append(a)
        for he in a["harness_errors"]:
            harness_errors.append(f"worker {k}: idx={he.get('idx')} {he.get('error')} :: {(he.get('tb') or '')[-300:]!r}")
    for k, p, out, hs in procs:
        try:
            os.remove(out)
        except OSError:
            pass
    try:
        os.rmdir(tmp)
    except OSError:
        pass

    ev = sum(a["evaluations"] for a in aggs)
    sigs = set()
    states = set()
    stats, probes, classes = {}, {}, {}
    for a in aggs:
        sigs.update(a["signatures"])
        states.update(a["states"])
        for src, dst in ((a["stats"], stats), (a["probes"], probes), (a["classes"], classes)):
            for kk, vv in src.items():
                dst[kk] = dst.get(kk, 0) + vv
    failures = [f for a in aggs for f in a["failures"]]
    known = load_known()
    wall_s = time.time() - t0

    # group failures by (rule, site); smallest plan represents the group
    groups = {}
    for f in failures:
        key = (f["rule"], f["site"])
        if key not in groups or plan_size(f["plan"]) < plan_size(groups[key]["plan"]):
            groups[key] = f
    new_violations = []
    known_hit = []
    rdir = os.environ.get("VERIF_REPLAY_DIR", os.path.join(VERIF, "replays"))
    os.makedirs(rdir, exist_ok=True)
    tree = repo_tree_hash()
    for (rule, site), f in sorted(groups.items()):
        e = match_known(known, pid, rule, site)
        if e:
            known_hit.append((rule, site, e))
            print(f"KNOWN-FINDING: property={pid} {rule}/{site} {e['description']}")
            continue
        name = f"{pid}-{seed}-{f['digest'][:8]}.json"
        path = os.path.join(rdir, name)
        with open(path, "w") as fh:
            json.dump(
                {
                    "property": pid,
                    "rule": rule,
                    "site": site,
                    "detail": f["detail"],
                    "digest": f["digest"],
                    "pythonhashseed": f["hashseed"],
                    "repo_tree": tree,
                    "seed": seed,
                    "orig_idx": f["orig_idx"],
                    "orig_ops": f["orig_ops"],
                    "plan": f["plan"],
                },
                fh,
                indent=1,
            )
        new_violations.append((rule, site, path, f))
        print(f"VIOLATION property={pid} replay={path}")
        print(f"  rule={rule} site={site} detail={f['detail']}")

    samples = [s for a in aggs for s in a["samples"]][:3]
    if not samples and aggs:
        try:
            samples = [prop.gen(seed, 0, tier)]
        except Exception:
            samples = []
    complete = all(a["complete"] for a in aggs) and len(aggs) == NPROC
    evidence = {
        "property_id": pid,
        "tier": tier,
        "seed": seed,
        "level": prop.LEVEL,
        "coverage": {
            "evaluations": ev,
            "distinct_nontrivial": len(sigs),
            "rule": prop.RULE_TEXT,
            "samples": samples,
            "nontrivial_runs": sum(a["nontrivial"] for a in aggs),
            "distinct_interleavings": len(sigs),
            "distinct_model_states": len(states),
            "runs_per_hour": int(ev / wall_s * 3600) if wall_s > 0 else 0,
            "sim_seconds_total": round(sum(a["sim_seconds"] for a in aggs), 3),
            "loop_iterations_total": sum(a["iterations"] for a in aggs),
            "faults_fired": {k: v for k, v in stats.items() if k in FAULT_KINDS},
            "traffic": {k: v for k, v in stats.items() if k not in FAULT_KINDS},
            "probes": probes,
            "probes_at_zero": sorted(p for p in getattr(prop, "PROBES", []) if not probes.get(p)),
            "run_classes": classes,
            "seeds": {"base": seed, "first_index": 0, "last_index": max([a["last_idx"] or 0 for a in aggs] or [0])},
            "budget_completed": complete,
            "aborted_foreign": sum(a["aborted_foreign"] for a in aggs),
            "known_findings_hit": [f"{r}/{s}" for r, s, _ in known_hit],
            "workers": NPROC,
            "hashseeds": sorted({a["hashseed"] for a in aggs}),
            "repo_tree": tree,
            "components": prop.COMPONENTS,
            "oracle_rules": prop.RULES,
        },
        "assumptions": prop.ASSUMPTIONS,
        "wall_s": round(wall_s, 2),
        "violations": len(new_violations),
    }
    if getattr(prop, "EXHAUSTIVE", None):
        evidence["coverage"]["sweep"] = prop.EXHAUSTIVE(tier, complete)
    if not os.environ.get("VERIF_NO_EVIDENCE"):
        os.makedirs(os.path.join(VERIF, "evidence"), exist_ok=True)
        with open(os.path.join(VERIF, "evidence", f"{pid}.json"), "w") as f:
            json.dump(evidence, f, indent=1, default=str)
    print(
        f"{pid} {tier}: {ev} runs, {len(sigs)} distinct interleavings, {len(new_violations)} new violation(s), "
        f"{len(known_hit)} known, {wall_s:.1f}s wall"
    )
    ab = sum(a["aborted_foreign"] for a in aggs)
    if new_violations:
        # a violation that reproduced in-process and has its replay file stands on its own; what else went wrong is noted
        for h in harness_errors[:10]:
            print("HARNESS-NOTE:", h, file=sys.stderr)
        if ev and ab / ev > 0.02:
            print(f"HARNESS-NOTE: {ab} of {ev} runs also raised exceptions outside the property's rules", file=sys.stderr)
        return 1
    if harness_errors:
        for h in harness_errors[:10]:
            print("HARNESS-ERROR:", h, file=sys.stderr)
        return 2
    if ev and ab / ev > 0.02:
        print(f"HARNESS-ERROR: {ab} of {ev} runs aborted by foreign findings", file=sys.stderr)
        return 2
    if ev == 0:
        print("HARNESS-ERROR: no run executed", file=sys.stderr)
        return 2
    return 1 if new_violations else 0


def replay_main(path):
    with open(path) as f:
        rp = json.load(f)
    hs = rp.get("pythonhashseed") or "0"
    if os.environ.get("PYTHONHASHSEED") != hs:
        env = dict(os.environ, PYTHONHASHSEED=hs)
        return subprocess.call([PY, os.path.join(VERIF, "sim", "runner.py"), "--replay", path], env=env, cwd=VERIF)
    sys.path.insert(0, VERIF)
    prop = load_prop(rp["property"])
    verdict, res = run_plan(prop, rp["plan"])
    hit = [(r, d) for r, d in verdict["violations"] if r == rp["rule"]]
    digest = res.sim.digest()
    if hit:
        site = prop.site(rp["rule"], rp["plan"], hit[0][1])
        same = site == rp["site"] and digest == rp["digest"]
        print(f"VIOLATION property={rp['property']} replay={path}")
        print(f"  rule={rp['rule']} site={site} detail={hit[0][1]}")
        print(f"  digest={'same' if digest == rp['digest'] else 'DIFFERENT'} exact={'yes' if same else 'no'}")
        if os.environ.get("VERIF_TRACE"):
            from sim import trace

            for ln in trace.render(res.log):
                print("   ", ln[:400])
        return 1
    print(f"replay of {path}: rule {rp['rule']} did not fail (digest {'same' if digest == rp['digest'] else 'different'})")
    return 0


if __name__ == "__main__":
    if sys.argv[1] == "--worker":
        sys.path.insert(0, VERIF)
        sys.exit(worker_main(sys.argv[2:]))
    if sys.argv[1] == "--replay":
        sys.exit(replay_main(sys.argv[2]))
