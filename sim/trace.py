"""human-readable rendering of an event log (for replay --trace)"""
from . import refdec

TN = {0: "Find", 1: "Offer", 6: "Sub", 7: "SubAck"}


def fmt_entries(data):
    msgs, err = refdec.split_datagram(data)
    out = []
    for m in msgs:
        cls, sdm = refdec.classify(m)
        if cls != "sd":
            out.append(f"<{cls} svc={m.service:#x} m={m.method:#x} type={m.mtype} rc={m.rc} sess={m.session} len={len(m.payload)}>")
            continue
        ents = []
        for e in sdm.entries:
            if e.type in (0, 1):
                ents.append(f"{TN[e.type]}({e.service:#x}.{e.instance:#x} v{e.major}.{e.value:#x} ttl={e.ttl})")
            else:
                ents.append(f"{TN[e.type]}({e.service:#x}.{e.instance:#x} v{e.major} eg={e.value & 0xffff} c={(e.value >> 16) & 15} ttl={e.ttl} opts={len(e.opts1) + len(e.opts2)})")
        out.append(f"SD[{'R' if sdm.reboot else '-'}{'U' if sdm.unicast else '-'} s={m.session}] " + " ".join(ents))
    if err:
        out.append(f"<undecodable: {err}>")
    return " | ".join(out)


def render(log):
    lines = []
    for seq, it, T, actor, kind, data in log:
        if kind == "idle":
            continue
        if kind == "rx":
            s = f"rx[{data[0]}] from {data[1][0]}: {fmt_entries(data[2])}"
        elif kind == "tx":
            s = f"tx {data[0][0]}:{data[0][1]} -> {data[1][0]}:{data[1][1]}: {fmt_entries(data[2])}"
        else:
            s = f"{kind} {data}"
        lines.append(f"{T:14.6f} it={it:<5} {actor or '-':<3} {s}")
    return lines
