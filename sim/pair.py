"""Engine `pair`: two or three complete, real SD stacks on the simulated network.

plan = {"engine":"pair","seed":..,"cfg":{...},"ops":[...],"until":..}
cfg: nodes: {"A": {"role":"offerer", "timings":{..}}, "B": {"role":"watcher", ...}, ("C": {"role":"bystander"})}
     net: {latency, jitter, windows:[{t0,t1,kind,rate,(node)}], partitions:[{t0,t1,a:[..],b:[..]}]}, mc_loop, drift:{node: rate}
ops: {"k":"node","t":..,"n":"A","f":"stop"|"start"|"crash"|"restart"(,"late":true: after the datagrams of that instant)}
     {"k":"stall","t":..,"n":"A","d":seconds}
     {"k":"inject","t":..,"to":"A","ch":"u"|"m","src":[host,port],"hex":".."}   (C03: corrupted / foreign datagrams)
"""
from . import core, lib
from .lib import sd, config, header
from .single import skey, subkey, lib_option  # noqa: F401

GROUP = ("224.224.224.245", 30490)
ADDR = {"A": ("10.0.0.1", 30490), "B": ("10.0.0.2", 30490), "C": ("10.0.0.3", 30490)}
SERVICE = (0x1111, 1, 1, 0)
EVENTGROUP = 1
B_ENDPOINT = ("10.0.0.2", 4000)


class CL(sd.ClientServiceListener):
    def __init__(self, sim, actor, name, hid):
        self.sim, self.actor, self.name, self.hid = sim, actor, name, hid

    def __hash__(self):
        return self.hid

    def service_offered(self, service, source):
        self.sim.rec("cb", self.actor, ("offered", self.name, skey(service), source))

    def service_stopped(self, service, source):
        self.sim.rec("cb", self.actor, ("stopped", self.name, skey(service), source))


class SL(sd.ServerServiceListener):
    def __init__(self, sim, actor, name):
        self.sim, self.actor, self.name = sim, actor, name

    def client_subscribed(self, subscription, source):
        self.sim.rec("cb", self.actor, ("subscribed", self.name, subkey(subscription), source, subscription.ttl))

    def client_unsubscribed(self, subscription, source):
        self.sim.rec("cb", self.actor, ("unsubscribed", self.name, subkey(subscription), source, subscription.ttl))


class Node:
    def __init__(self, sim, name, ncfg):
        self.sim, self.name, self.cfg = sim, name, ncfg
        self.addr = ADDR[name]
        self.alive = False
        self.started = False
        self.inc = 0
        self.prot = None

    @property
    def actor(self):
        return f"{self.name}{self.inc}"

    def boot(self):
        """a fresh incarnation: new objects, new session storage (reboot flag set, ids from 1)"""
        sim = self.sim
        self.ctx, self.tag = sim.new_context(self.name)
        self.inc = self.tag[1]
        self.alive = True
        self.ctx.run(self._build)

    def _build(self):
        sim, name, actor = self.sim, self.name, self.actor
        timings = sd.Timings(**self.cfg.get("timings", {}))
        self.prot = prot = sd.ServiceDiscoveryProtocol(GROUP, timings=timings)
        prot.transport = self.transport = core.SimTransport(sim, name, self.addr, actor=actor)
        au = sd.DatagramProtocolAdapter(prot, is_multicast=False)
        am = sd.DatagramProtocolAdapter(prot, is_multicast=True)
        self.transport.proto = au
        sim.open_socket(name, self.addr, "u", au.datagram_received, self.ctx, self.tag, actor=actor)
        sim.open_socket(name, self.addr, "m", am.datagram_received, self.ctx, self.tag, group=GROUP, actor=actor)
        role = self.cfg["role"]
        sim.rec("boot", actor, role)
        if role == "offerer":
            svc = config.Service(*SERVICE, eventgroups=frozenset([EVENTGROUP]))
            self.slistener = SL(sim, actor, "S0")
            self.instance = sd.ServiceInstance(svc, self.slistener, prot.announcer, timings)
            sim.rec("op", actor, ("call", -1, "announce", (0,)))
            prot.announcer.announce_service(self.instance)
            if self.cfg.get("second_instance"):
                svc2 = config.Service(0x1111, 2, 1, 0)
                self.instance2 = sd.ServiceInstance(svc2, SL(sim, actor, "S1"), prot.announcer, timings)
                sim.rec("op", actor, ("call", -1, "announce", (1,)))
                prot.announcer.announce_service(self.instance2)
        elif role == "watcher":
            self.clistener = CL(sim, actor, "L0", 1000)
            sim.rec("op", actor, ("call", -1, "watch", (0, "L0")))
            prot.discovery.watch_service(config.Service(SERVICE[0]), self.clistener)
            eg = config.Eventgroup(SERVICE[0], 0xFFFF, 0xFF, EVENTGROUP, B_ENDPOINT, header.L4Protocols.UDP)
            prot.discovery.find_subscribe_eventgroup(eg)
            if self.cfg.get("second_watch"):
                # a second, never offered service: keeps FindService traffic going
                sim.rec("op", actor, ("call", -1, "watch", (1, "L1")))
                prot.discovery.watch_service(config.Service(0x3333), CL(sim, actor, "L1", 1001))
        else:  # bystander: offers something else, looks for something nobody offers
            svc = config.Service(0x2222, 7, 1, 0)
            self.instance = sd.ServiceInstance(svc, SL(sim, actor, "S0"), prot.announcer, timings)
            prot.announcer.announce_service(self.instance)
            prot.discovery.watch_service(config.Service(0x4444), CL(sim, actor, "L0", 1000))
        self.started = False

    def start(self):
        if not self.alive or self.started:
            return "skip"
        self.started = True
        self.prot.start()

    def stop(self):
        if not self.alive or not self.started:
            return "skip"
        self.started = False
        self.prot.stop()

    def crash(self):
        if not self.alive:
            return "skip"
        self.alive = False
        self.started = False
        self.sim.crash(self.name)

    def restart(self):
        if self.alive:
            return "skip"
        self.boot()
        self.started = True
        self.prot.start()


class Result:
    pass


def execute(plan):
    lib.reset()
    cfg = plan.get("cfg", {})
    simcfg = {
        "sock_flip": cfg.get("sock_flip"),
        "uniform": cfg.get("uniform"),
        "net": cfg.get("net", {}),
        "max_iterations": cfg.get("max_iterations", 400000),
        "mc_loop": cfg.get("mc_loop", False),
        "trace_timers": cfg.get("trace_timers", False),
    }
    sim = core.new_sim(plan["seed"], simcfg)
    sim.net.fifo = True
    for n, rate in cfg.get("drift", {}).items():
        sim.loop.rates[n] = rate
    nodes = {n: Node(sim, n, c) for n, c in cfg["nodes"].items()}
    boot_ctx = {}

    def run_in(node, fn, label):
        def call():
            r = fn()
            if r == "skip":
                sim.rec("op-skip", node.actor, label)

        return call

    # boot at t=0 (construction needs no running loop; start does)
    for n, node in nodes.items():
        node.boot()
        t0 = node.cfg.get("start_at", 0.0)
        sim.at(t0, "op", (node.ctx, run_in(node, node.start, ("start",)), (node.actor, "call", -1, "start", ())))
    for idx, op in enumerate(plan["ops"]):
        k, t = op["k"], op["t"]
        if k == "node":
            node = nodes[op["n"]]
            f = op["f"]

            def fn(node=node, f=f, idx=idx):
                # crash / restart are acts of the environment, not of the node's own code
                label = (node.actor, "call", idx, f, ())
                if f == "restart":
                    if node.alive:
                        sim.rec("op-skip", node.actor, (idx, f))
                        return
                    node.boot()
                    sim.rec("op", node.actor, ("call", idx, "restart", ()))
                    node.started = True
                    node.ctx.run(node.prot.start)
                    return
                sim.rec("op", label[0], label[1:])
                r = getattr(node, f)()
                if r == "skip":
                    sim.rec("op-skip", node.actor, (idx, f))
                elif f in ("start", "stop"):
                    pass

            if f in ("start", "stop"):
                # runs inside the node's own context (its tasks and timers belong to the incarnation)
                def in_ctx(node=node, f=f, idx=idx):
                    if not node.alive:
                        sim.rec("op-skip", node.actor, (idx, f))
                        return
                    sim.rec("op", node.actor, ("call", idx, f, ()))
                    r = node.ctx.run(getattr(node, f))
                    if r == "skip":
                        sim.rec("op-skip", node.actor, (idx, f))

                sim.at(t, "op", (ENV_CTX, _wrap(in_ctx), ("env", "env", idx, f, ())), late=bool(op.get("late")))
            else:
                sim.at(t, "op", (ENV_CTX, _wrap(fn), ("env", "env", idx, f, ())), late=bool(op.get("late")))
        elif k == "stall":
            node = nodes[op["n"]]

            def st(node=node, d=op["d"]):
                if node.alive:
                    sim.rec("stall", node.actor, d)
                    sim.loop.stall(node.tag, d)
                    sim.stats["stall"] += 1

            sim.at(t, "op", (ENV_CTX, _wrap(st), ("env", "env", idx, "stall", ())))
        elif k == "inject":
            node = nodes[op["to"]]
            sim.inject(t, tuple(op["src"]), node.addr, op["ch"], bytes.fromhex(op["hex"]))
            sim.stats["inject"] += 1
        elif k == "busy":
            sim.at(t, "busy", op["d"])
        else:
            raise core.HarnessError(f"unknown op kind {k}")
    net = sim.net
    sim.run(plan["until"])
    res = Result()
    res.sim, res.log, res.stats = sim, sim.log, sim.stats
    res.op_exc = []
    res.loop_exc = sim.loop.exceptions
    res.swallowed = sim.swallowed
    res.iterations = sim.loop.iteration
    res.sim_time = sim.loop._now
    res.nodes = nodes
    res.state = {n: node_state(node) for n, node in nodes.items()}
    res.last_fault_arrival = net.last_fault_arrival
    res.timer_log = sim.loop.timer_log
    return res


import contextvars  # noqa: E402

ENV_CTX = contextvars.Context()


def _wrap(fn):
    return fn


def node_state(node):
    """discovery, subscription and session state of a node's current incarnation (for twin runs)"""
    p = node.prot
    if p is None:
        return None
    found = sorted((a, skey(s)) for a, d in p.discovery.found_services.store.items() for s in d)
    subs = sorted((a, subkey(s)) for inst in p.announcer.announcing_services for a, d in inst.subscriptions.store.items() for s in d)
    incoming = sorted(p.session_storage.incoming.items())
    return {"found": found, "subscriptions": subs, "incoming": incoming}
