"""Engine `svc`: one SimpleService endpoint (method dispatch, eventgroups) announced by a
real SD stack in the same node, rogue clients, seeded resolver latency. It is the single-stack
engine with cfg["service"] set; kept as a module of its own so that plans name what they run."""
from .single import execute, PEERS, NODE_ADDR, SVC_ADDR  # noqa: F401
