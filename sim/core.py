"""Deterministic simulator core: virtual-time asyncio loop, simulated datagram
network, node incarnations (crash = handles of a dead incarnation are never
run), seeded choices, event log.

Nothing in here reads a real clock, a real socket or a stateful global PRNG.
"""
import asyncio
import contextvars
import hashlib
import heapq
import logging
import socket
import struct
from asyncio import events as _aio_events
from collections import deque, Counter

from . import refdec

NODE = contextvars.ContextVar("simnode", default=None)

RES = 1e-6  # clock resolution of the simulated loop
LATE = 1 << 40  # sequence offset: "scheduled after every library timer of the same deadline"


# ------------------------------------------------------------------ randomness
def H(*key):
    """stateless keyed choice in [0,1): a function of the key only"""
    d = hashlib.blake2b(repr(key).encode(), digest_size=8).digest()
    return struct.unpack("!Q", d)[0] / 18446744073709551616.0


class HarnessError(Exception):
    """the machinery, not the library, is at fault (never a VIOLATION)"""


class StepCap(HarnessError):
    pass


# ------------------------------------------------------------------ loop
class SimTimer(asyncio.TimerHandle):
    """TimerHandle ordered by (deadline, scheduling order): what a real
    monotonic clock gives, instead of the heap's arbitrary tie order"""

    __slots__ = ("_seq",)

    def __lt__(self, other):
        return (self._when, self._seq) < (other._when, other._seq)

    def __le__(self, other):
        return (self._when, self._seq) <= (other._when, other._seq)

    def __gt__(self, other):
        return (self._when, self._seq) > (other._when, other._seq)

    def __ge__(self, other):
        return (self._when, self._seq) >= (other._when, other._seq)


class SimLoop(asyncio.BaseEventLoop):
    def __init__(self, sim):
        super().__init__()
        self.sim = sim
        self._now = 0.0
        self._clock_resolution = RES
        self._tseq = 0
        self.iteration = 0
        self.max_iterations = 200000
        self.dead = set()  # (node, incarnation) tags that crashed
        self.stalled = {}  # tag -> (release time, [parked handles])
        self.rates = {}  # node name -> clock rate
        self.exceptions = []
        self.set_exception_handler(self._on_exception)
        self.skipped_dead = 0
        self.timer_log = None

    # -- clock
    def time(self):
        return self._now

    def _on_exception(self, loop, context):
        exc = context.get("exception")
        msg = context.get("message", "")
        if exc is None and "was destroyed but it is pending" in msg:
            return
        tag = NODE.get()
        self.exceptions.append((self._now, tag, type(exc).__name__ if exc else None, msg, exc))
        self.sim.rec("loop-exception", tag and tag[0], (type(exc).__name__ if exc else None, _where(exc)))

    # -- timers
    def call_at(self, when, callback, *args, context=None):
        self._check_closed()
        tag = NODE.get()
        if tag is not None and self.rates:
            r = self.rates.get(tag[0])
            if r:
                when = self._now + (when - self._now) * r
        timer = SimTimer(when, callback, args, self, context)
        if self.timer_log is not None:
            self.timer_log.append(when)
        self._tseq += 1
        timer._seq = self._tseq
        heapq.heappush(self._scheduled, timer)
        timer._scheduled = True
        return timer

    def call_at_late(self, when, callback, *args, context=None):
        t = self.call_at(when, callback, *args, context=context)
        # re-key: remove and push again with a late sequence number
        self._scheduled.remove(t)
        heapq.heapify(self._scheduled)
        t._seq += LATE
        heapq.heappush(self._scheduled, t)
        return t

    def create_task(self, coro, *, name=None, context=None):
        # strong reference until teardown: a crashed incarnation's suspended tasks must not be
        # garbage-collected mid-run (closing a coroutine runs its finally blocks: a dead node would
        # send its StopOffer, at a moment chosen by the garbage collector)
        task = super().create_task(coro, name=name, context=context)
        self.sim.keep.append(task)
        return task

    # -- selector stand-ins
    def _process_events(self, event_list):
        pass

    def _write_to_self(self):
        pass

    async def getaddrinfo(self, host, port, *, family=0, type=0, proto=0, flags=0):
        lat = self.sim.resolver_latency(host, port)
        await asyncio.sleep(lat)
        if ":" in host:
            return [(socket.AF_INET6, type or socket.SOCK_DGRAM, proto, "", (host, int(port), 0, 0))]
        return [(socket.AF_INET, type or socket.SOCK_DGRAM, proto, "", (host, int(port)))]

    async def shutdown_default_executor(self, timeout=None):
        return None

    # -- one iteration
    def _drop_cancelled_head(self):
        sched = self._scheduled
        if len(sched) > 100 and self._timer_cancelled_count / len(sched) > 0.5:
            new = []
            for h in sched:
                if h._cancelled:
                    h._scheduled = False
                else:
                    new.append(h)
            heapq.heapify(new)
            self._scheduled = sched = new
            self._timer_cancelled_count = 0
        else:
            while sched and sched[0]._cancelled:
                self._timer_cancelled_count -= 1
                heapq.heappop(sched)._scheduled = False
        return self._scheduled

    def _run_once(self):
        sim = self.sim
        sched = self._drop_cancelled_head()
        ready = self._ready
        if not ready and not self._stopping:
            # idle point: nothing left to do at this instant
            sim.on_idle()
            tn = sched[0]._when if sched else None
            te = sim.next_event_time()
            if self.stalled:
                ts = min(v[0] for v in self.stalled.values())
                te = ts if te is None else min(te, ts)
            if tn is None and te is None:
                self._stopping = True
            else:
                t = tn if te is None else te if tn is None else min(tn, te)
                if t > self._now:
                    self._now = t
        if not self._stopping:
            # I/O phase (before timers, as in the selector loop)
            sim.io_phase()
            if self.stalled:
                self._release_stalled()
            # timer phase
            end = self._now + RES
            while sched and sched[0]._when <= end:
                h = heapq.heappop(sched)
                h._scheduled = False
                if not h._cancelled:
                    ready.append(h)
                else:
                    self._timer_cancelled_count -= 1
        dead = self.dead
        stalled = self.stalled
        for _ in range(len(ready)):
            h = ready.popleft()
            if h._cancelled:
                continue
            if dead or stalled:
                tag = h._context.get(NODE)
                if tag in dead:
                    self.skipped_dead += 1
                    continue
                if tag in stalled:
                    stalled[tag][1].append(h)
                    continue
            h._run()
        h = None
        self.iteration += 1
        if self.iteration > self.max_iterations:
            raise StepCap(f"more than {self.max_iterations} loop iterations")

    def _release_stalled(self):
        for tag in list(self.stalled):
            t, parked = self.stalled[tag]
            if t <= self._now:
                del self.stalled[tag]
                self.sim.rec("unstall", tag[0] + str(tag[1]), None)
                # a resumed process sees: the callbacks that were ready, its sockets readable again (the datagrams
                # that piled up go back to the socket queues: one per socket per iteration), then the due timers
                deliveries = [h for h in parked if h._callback == self.sim._deliver]
                plain = [h for h in parked if h._callback != self.sim._deliver and not isinstance(h, asyncio.TimerHandle)]
                timers = [h for h in parked if isinstance(h, asyncio.TimerHandle)]
                for h in reversed(deliveries):
                    sock, payload, src = h._args
                    sock.queue.appendleft((self._now, 0, payload, src))
                self._ready.extend(plain)
                self._ready.extend(timers)

    def stall(self, tag, duration):
        self.stalled[tag] = (self._now + duration, [])


def _where(exc):
    if exc is None or exc.__traceback__ is None:
        return None
    tb = exc.__traceback__
    while tb.tb_next:
        tb = tb.tb_next
    return tb.tb_frame.f_code.co_name


# ------------------------------------------------------------------ transport / network
class SimTransport:
    """what the library sees as its asyncio.DatagramTransport"""

    def __init__(self, sim, node, addr, actor=None):
        self.sim, self.node, self.addr = sim, node, addr
        self.actor = actor or node
        self.closed = False
        self.blackhole = False
        # the asyncio.DatagramProtocol this transport belongs to (set by the engine): where a failed send is reported,
        # as the selector transport does (OSError of sendto() -> protocol.error_received(exc), nothing is raised)
        self.proto = None

    def sendto(self, data, addr=None):
        if self.blackhole:
            return
        self.sim.net_send(self, bytes(data), addr)

    def get_extra_info(self, name, default=None):
        if name == "sockname":
            return self.addr
        return default

    def close(self):
        self.closed = True

    def is_closing(self):
        return self.closed

    def abort(self):
        self.closed = True


class SimSocket:
    __slots__ = ("addr", "chan", "deliver", "ctx", "tag", "queue", "node", "order", "actor")

    def __init__(self, node, addr, chan, deliver, ctx, tag, order, actor=None):
        self.node, self.addr, self.chan, self.deliver, self.ctx, self.tag = node, addr, chan, deliver, ctx, tag
        self.actor = actor or node
        self.queue = deque()
        self.order = order


class Sim:
    """one simulated run"""

    def __init__(self, seed, cfg=None):
        self.seed = seed
        self.cfg = cfg or {}
        self.loop = SimLoop(self)
        self.loop.max_iterations = self.cfg.get("max_iterations", 200000)
        if self.cfg.get("trace_timers"):
            self.loop.timer_log = []
        self.events = []  # heap of (t, seq, kind, data)
        self.eseq = 0
        self.log = []
        self.lseq = 0
        self.sockets = {}  # (addr, chan) -> SimSocket
        self.groups = {}  # group addr -> [SimSocket]
        self.stats = Counter()
        self.idle_hooks = []
        self.tx_hooks = []
        self.net = NetFaults(self, self.cfg.get("net", {}))
        self.uniform_n = Counter()
        self.flow_n = Counter()
        self.incarnation = Counter()
        self.contexts = {}
        self.ended = False
        self.keep = []  # strong references until teardown
        self.resolver = self.cfg.get("resolver", None)
        self.res_n = 0
        self.swallowed = []
        self.torn = False

    # -- log
    def rec(self, kind, actor, data=None):
        self.lseq += 1
        lp = self.loop
        self.log.append((self.lseq, lp.iteration, lp._now, actor, kind, data))

    def digest(self):
        h = hashlib.sha256()
        for e in self.log:
            h.update(repr(e).encode())
        return h.hexdigest()

    def signature(self):
        """interleaving signature: order of (actor, kind) without times"""
        h = hashlib.sha256()
        for e in self.log:
            if e[4] != "idle":
                h.update(repr((e[3], e[4], _shape(e[5]))).encode())
        return h.hexdigest()[:16]

    # -- events
    def at(self, t, kind, data, late=False):
        """late: within its instant the event sorts after every datagram (an operation issued right after the arrival)"""
        self.eseq += 1
        heapq.heappush(self.events, (t, self.eseq + (10**12 if late else 0), kind, data))

    def next_event_time(self):
        for s in self.sockets.values():
            if s.queue:
                return self.loop._now
        if self.events:
            return self.events[0][0]
        return None

    def on_idle(self):
        self.rec("idle", None, None)
        for h in self.idle_hooks:
            h()

    def io_phase(self):
        lp = self.loop
        ev = self.events
        handles = []
        while ev and ev[0][0] <= lp._now:
            t, seq, kind, data = heapq.heappop(ev)
            if kind == "dgram":
                sock, payload, src = data
                live = self.sockets.get((sock.addr, sock.chan))
                if live is sock:
                    sock.queue.append((t, seq, payload, src))
                else:
                    self.stats["dgram_to_dead_socket"] += 1
            elif kind == "op":
                ctx, fn, label = data
                handles.append((t, seq, asyncio.Handle(self._run_op, (fn, label), lp, ctx)))
            elif kind == "op-deferred":
                ctx, n, fn, label = data
                handles.append((t, seq, asyncio.Handle(self._hop, (n, fn, label), lp, ctx)))
            elif kind == "busy":
                self.stats["busy"] += 1
                lp._now = max(lp._now, t + data)
                self.rec("busy", None, data)
            elif kind == "end":
                self.ended = True
                lp.stop()
        items = [(t, seq, 0, h) for t, seq, h in handles]
        nsock = 0
        for s in self.sockets.values():
            if s.queue:
                t, seq, payload, src = s.queue.popleft()
                items.append((t, seq, 1, asyncio.Handle(self._deliver, (s, payload, src), lp, s.ctx)))
                nsock += 1
        if not items:
            return
        items.sort(key=lambda x: (x[0], x[1]))
        if nsock > 1:
            self.stats["multi_socket_iteration"] += 1
            flip = self.cfg.get("sock_flip")
            if flip and H(self.seed, "flip", lp.iteration) < flip:
                # readiness events of one select() call have no defined order
                pos = [i for i, x in enumerate(items) if x[2]]
                rev = [items[i] for i in reversed(pos)]
                for i, x in zip(pos, rev):
                    items[i] = x
                self.stats["sock_flip"] += 1
        for x in items:
            lp._ready.append(x[3])

    def _run_op(self, fn, label):
        self.rec("op", label[0], label[1:])
        fn()

    def _hop(self, n, fn, label):
        """run the operation n loop iterations from now (same virtual instant if the loop stays busy): places an
        operation in the middle of a cascade of call_soon / task steps that a timer or a datagram started"""
        if n <= 0:
            self._run_op(fn, label)
        else:
            self.loop.call_soon(self._hop, n - 1, fn, label)

    def _deliver(self, sock, payload, src):
        if self.sockets.get((sock.addr, sock.chan)) is not sock:
            # closed between readiness and callback: a closed transport reads nothing
            self.stats["dgram_to_dead_socket"] += 1
            return
        self.rec("rx", sock.actor, (sock.chan, src, payload, sock.addr))
        self.stats["delivered"] += 1
        sock.deliver(payload, src)

    # -- network
    def open_socket(self, node, addr, chan, deliver, ctx, tag, group=None, actor=None):
        s = SimSocket(node, addr, chan, deliver, ctx, tag, len(self.sockets), actor)
        self.sockets[(addr, chan)] = s
        if group is not None:
            self.groups.setdefault(group, []).append(s)
        return s

    def close_sockets(self, node):
        for k in [k for k, s in self.sockets.items() if s.node == node]:
            s = self.sockets.pop(k)
            s.queue.clear()
        for g in self.groups.values():
            g[:] = [s for s in g if s.node != node]

    def net_send(self, transport, data, dst):
        src = transport.addr
        self.rec("tx", transport.actor, (src, dst, data))
        self.stats["sent"] += 1
        for h in self.tx_hooks:
            h(transport.node, src, dst, data)
        if self.net.send_error(transport, src, dst):
            return
        if dst in self.groups:
            for s in list(self.groups[dst]):
                if s.node == transport.node and not self.cfg.get("mc_loop", False):
                    continue
                self.net.route(src, s, data)
        else:
            s = self.sockets.get((dst, "u"))
            if s is not None:
                self.net.route(src, s, data)

    def inject(self, t, src, dst_addr, chan, data):
        """a datagram from outside (rogue peer) arriving at exactly t"""
        s = self.sockets.get((dst_addr, chan))
        if s is None:
            return
        self.at(t, "dgram", (s, data, src))

    # -- seeded seams
    def uniform(self, a, b):
        tag = NODE.get()
        n = self.uniform_n[tag]
        self.uniform_n[tag] += 1
        forced = self.cfg.get("uniform")
        if forced is not None:
            lst = forced.get(tag[0] if tag else None) if isinstance(forced, dict) else forced
            if lst:
                f = lst[n % len(lst)]
                v = a + (b - a) * f
                self.rec("uniform", tag and tag[0], (a, b, v))
                return v
        u = H(self.seed, "uniform", tag, n)
        if u < 0.15:
            v = a
        elif u < 0.30:
            v = b
        else:
            v = a + (b - a) * H(self.seed, "uniform-v", tag, n)
        self.rec("uniform", tag and tag[0], (a, b, v))
        return v

    def resolver_latency(self, host, port):
        r = self.resolver
        if not r:
            return 0.0
        self.res_n += 1
        lo, hi = r
        u = H(self.seed, "resolver", self.res_n)
        self.stats["slow_resolver"] += 1
        return lo + (hi - lo) * u

    # -- nodes
    def new_context(self, node):
        self.incarnation[node] += 1
        tag = (node, self.incarnation[node])
        ctx = contextvars.Context()
        ctx.run(NODE.set, tag)
        self.contexts[node] = (ctx, tag)
        return ctx, tag

    def crash(self, node):
        ctx, tag = self.contexts[node]
        self.loop.dead.add(tag)
        self.close_sockets(node)
        self.stats["crash"] += 1
        self.rec("crash", node, tag[1])

    # -- run
    def run(self, until):
        lp = self.loop
        self.at(until, "end", None)
        asyncio.set_event_loop(lp)
        try:
            lp.run_forever()
        finally:
            self.teardown()

    def teardown(self):
        lp = self.loop
        self.rec("end", None, None)
        for s in self.sockets.values():
            s.queue.clear()
        self.torn = True
        self.events.clear()
        self.tx_hooks = [_blackhole]
        self.net = _NullNet()
        tasks = [t for t in self.keep if isinstance(t, asyncio.Task) and not t.done()]
        n0 = len(self.log)
        for t in tasks:
            t._log_destroy_pending = False
            c = t.get_coro()
            try:
                c.close()
            except BaseException:
                pass
        del self.log[n0:]
        lp._ready.clear()
        for h in lp._scheduled:
            h._scheduled = False
        lp._scheduled.clear()
        try:
            lp.close()
        except Exception:
            pass
        asyncio.set_event_loop(decoy_loop())
        _aio_events._set_running_loop(None)
        self.keep.clear()


def _blackhole(*a):
    pass


class _NullNet:
    def route(self, *a):
        pass


def _shape(data):
    """payload reduced to its kind for the interleaving signature"""
    if isinstance(data, tuple) and data and isinstance(data[-1], (bytes, bytearray)):
        return (data[0], len(data[-1]))
    if isinstance(data, tuple):
        return tuple(x for x in data if isinstance(x, (str, int, bool)))
    return data if isinstance(data, (str, int, bool, type(None))) else None


class NetFaults:
    """per-datagram, per-receiver decisions; stateless in the seed, confined to
    windows listed in cfg['windows'] = [{t0,t1,kind,rate,(src),(dst)}]"""

    def __init__(self, sim, cfg):
        self.sim = sim
        self.lat = cfg.get("latency", 0.0)
        self.jitter = cfg.get("jitter", 0.0)
        self.windows = cfg.get("windows", [])
        self.partitions = cfg.get("partitions", [])  # [{t0,t1,a,b}]
        self.last_fault_arrival = 0.0
        self.fifo = False
        self.flow_last = {}

    def send_error(self, transport, src, dst):
        """a failing sendto() system call (ENETUNREACH, ENOBUFS, EPERM from a firewall, ...): the datagram reaches no
        receiver and the sender's protocol is told through error_received(), synchronously inside sendto(), which
        returns normally - exactly what asyncio's selector datagram transport does. The "tx" record is already
        written: the library did hand the datagram over, at that time, with that content."""
        sim = self.sim
        now = sim.loop._now
        for i, w in enumerate(self.windows):
            if w["kind"] != "senderr" or not (w["t0"] <= now < w["t1"]):
                continue
            if "node" in w and w["node"] != src[0]:
                continue
            flow = (src, dst, "senderr")
            n = sim.flow_n[flow]
            sim.flow_n[flow] += 1
            if H(sim.seed, "senderr", i, flow, n) >= w["rate"]:
                continue
            sim.stats["send_error"] += 1
            sim.rec("send-error", transport.actor, (src, dst))
            if transport.proto is not None:
                transport.proto.error_received(OSError(101, "Network is unreachable"))
            return True
        return False

    def route(self, src, sock, data):
        sim = self.sim
        now = sim.loop._now
        flow = (src, sock.addr, sock.chan)
        n = sim.flow_n[flow]
        sim.flow_n[flow] += 1
        delay = self.lat + (self.jitter * H(sim.seed, "jit", flow, n) if self.jitter else 0.0)
        for p in self.partitions:
            if p["t0"] <= now < p["t1"] and _cut(p, src, sock.addr):
                sim.stats["partition_drop"] += 1
                sim.rec("net-drop", sock.actor, ("partition", src))
                return
        copies = 1
        faulted = False
        for i, w in enumerate(self.windows):
            if not (w["t0"] <= now < w["t1"]):
                continue
            if "node" in w and w["node"] not in (src[0], sock.addr[0]):
                continue
            if w["kind"] == "senderr":
                continue
            u = H(sim.seed, "netfault", i, flow, n)
            if u >= w["rate"]:
                continue
            k = w["kind"]
            if k == "drop":
                sim.stats["drop"] += 1
                sim.rec("net-drop", sock.actor, ("drop", src))
                return
            if k == "dup":
                copies += 1
                sim.stats["dup"] += 1
                faulted = True
            elif k == "delay":
                delay += w.get("max", 0.05) * H(sim.seed, "delayamt", i, flow, n)
                sim.stats["delay"] += 1
                faulted = True
        for c in range(copies):
            t = now + delay + (c * (self.lat + 0.001))
            if faulted:
                if t > self.last_fault_arrival:
                    self.last_fault_arrival = t
            elif self.fifo:
                # outside fault windows a flow is FIFO: jitter never reorders
                last = self.flow_last.get(flow, 0.0)
                if t <= last:
                    t = last + 1e-7
                self.flow_last[flow] = t
            sim.at(t, "dgram", (sock, data, src))


def _cut(p, a, b):
    A, B = p["a"], p["b"]
    return (a[0] in A and b[0] in B) or (a[0] in B and b[0] in A)


# ------------------------------------------------------------------ library seams
class _Rand:
    def __init__(self):
        self.sim = None

    def uniform(self, a, b):
        return self.sim.uniform(a, b)


RAND = _Rand()


class SwallowHandler(logging.Handler):
    """records what utils.log_exceptions swallows"""

    def __init__(self):
        super().__init__(level=logging.ERROR)
        self.sim = None

    def emit(self, record):
        if record.exc_info and isinstance(record.msg, str) and record.msg.startswith("unhandled exception in"):
            sim = self.sim
            if sim is not None and not getattr(sim, "torn", False):
                exc = record.exc_info[1]
                tag = NODE.get()
                sim.stats["swallowed"] += 1
                sim.swallowed.append((sim.loop._now, tag, type(exc).__name__, record.msg, exc))
                sim.rec("swallowed-exception", tag and tag[0], (type(exc).__name__, record.msg[23:], _where(exc)))


SWALLOW = SwallowHandler()
_installed = False


def install(someip_sd):
    """idempotent: put the seams into the imported library (module attributes
    only, nothing in /repo is edited)"""
    global _installed
    if _installed:
        return
    _installed = True
    someip_sd.random = RAND
    lg = logging.getLogger("someip")
    lg.setLevel(logging.ERROR)
    lg.addHandler(SWALLOW)
    lg.propagate = False
    logging.getLogger("asyncio").setLevel(logging.CRITICAL)
    import warnings

    warnings.simplefilter("ignore")


_DECOY = None


def decoy_loop():
    """what `asyncio.get_event_loop()` returns while the system is being constructed: a loop that never runs (an
    application that builds its objects before `asyncio.run()`). Code that captures the loop at construction instead of
    using the running loop puts its timers on this one, where they never fire."""
    global _DECOY
    if _DECOY is None or _DECOY.is_closed():
        _DECOY = asyncio.new_event_loop()
    return _DECOY


def new_sim(seed, cfg=None):
    sim = Sim(seed, cfg)
    RAND.sim = sim
    SWALLOW.sim = sim
    asyncio.set_event_loop(decoy_loop())
    return sim
