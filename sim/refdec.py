"""Independent reference codec for SOME/IP and SOME/IP-SD.

Written from the wire format, not from someip.header: the oracles read the
network through this module only, and rogue peers emit through it, so a change
to the library's own codec cannot hide behind itself.
"""
import struct
import ipaddress
from collections import namedtuple

SD_SERVICE, SD_METHOD = 0xFFFF, 0x8100
MSG_TYPES = {0, 1, 2, 0x40, 0x41, 0x42, 0x80, 0x81, 0xC0, 0xC1}
RET_CODES = set(range(0, 11))
FIND, OFFER, SUBSCRIBE, SUBACK = 0, 1, 6, 7
ENTRY_TYPES = {FIND, OFFER, SUBSCRIBE, SUBACK}
TTL_FOREVER = 0xFFFFFF


class RefError(Exception):
    """input is not decodable (the library must answer with its ParseError)"""


class RefUnicode(RefError):
    """non-ASCII byte inside a configuration string"""


Msg = namedtuple("Msg", "service method length client session proto iface mtype rc payload")
# opts: tuple of option tuples
Entry = namedtuple("Entry", "type service instance major ttl value opts1 opts2")
SD = namedtuple("SD", "flags reboot unicast entries options rest")


def entry_counter(e):
    return (e.value >> 16) & 0xF


def entry_eventgroup(e):
    return e.value & 0xFFFF


# ---------------------------------------------------------------- SOME/IP
def dec_someip(buf):
    """-> (Msg, rest) or RefError"""
    if len(buf) < 16:
        raise RefError("short header")
    sid, mid, length, cid, sess, pv, iv, mt, rc = struct.unpack("!HHIHHBBBB", buf[:16])
    if pv != 1:
        raise RefError("protocol version")
    if mt not in MSG_TYPES:
        raise RefError("message type")
    if rc not in RET_CODES:
        raise RefError("return code")
    if length < 8:
        raise RefError("length < 8")
    end = 16 + length - 8
    if len(buf) < end:
        raise RefError("truncated payload")
    return Msg(sid, mid, length, cid, sess, pv, iv, mt, rc, bytes(buf[16:end])), bytes(buf[end:])


def enc_someip(service, method, client, session, iface, mtype, rc=0, payload=b"", proto=1, length=None):
    if length is None:
        length = len(payload) + 8
    return struct.pack("!HHIHHBBBB", service, method, length, client, session, proto, iface, mtype, rc) + payload


def split_datagram(buf):
    """-> (list of Msg, error or None): what a receiver must see in one datagram"""
    out = []
    while buf:
        try:
            m, buf = dec_someip(buf)
        except RefError as e:
            return out, e
        out.append(m)
    return out, None


# ---------------------------------------------------------------- options
def _dec_config(body):
    # body = reserved byte + strings
    if len(body) < 2:
        raise RefError("config option too short")
    pos = 1
    items = []
    while True:
        n = body[pos]
        pos += 1
        if n == 0:
            break
        # the string and the next length byte must both be present
        if pos + n + 1 > len(body):
            raise RefError("config string overruns option")
        s = body[pos : pos + n]
        pos += n
        eq = s.find(b"=")
        parts = (s,) if eq < 0 else (s[:eq], s[eq + 1 :])
        for p in parts:
            if any(c >= 0x80 for c in p):
                raise RefUnicode("non-ascii in config string")
        if eq < 0:
            items.append((s.decode("ascii"), None))
        else:
            items.append((s[:eq].decode("ascii"), s[eq + 1 :].decode("ascii")))
    return ("cfg", tuple(items))


_IPKIND = {0x04: ("ep", 4), 0x14: ("mc", 4), 0x24: ("sdep", 4), 0x06: ("ep", 6), 0x16: ("mc", 6), 0x26: ("sdep", 6)}


def dec_option(buf):
    """-> (option tuple, rest)"""
    if len(buf) < 3:
        raise RefError("short option header")
    ln, typ = struct.unpack("!HB", buf[:3])
    if len(buf) - 3 < ln:
        raise RefError("option overruns array")
    body, rest = bytes(buf[3 : 3 + ln]), buf[3 + ln :]
    if typ == 1:
        return _dec_config(body), rest
    if typ == 2:
        if ln != 5:
            raise RefError("loadbalancing length")
        prio, weight = struct.unpack("!HH", body[1:])
        return ("lb", prio, weight), rest
    if typ in _IPKIND:
        kind, ver = _IPKIND[typ]
        want = 9 if ver == 4 else 21
        if ln != want:
            raise RefError("ip option length")
        alen = 4 if ver == 4 else 16
        addr = body[1 : 1 + alen]
        l4, port = struct.unpack("!BH", body[2 + alen :])
        a = ipaddress.IPv4Address(addr) if ver == 4 else ipaddress.IPv6Address(addr)
        return (kind, ver, str(a), l4, port), rest
    return ("unk", typ, body), rest


def enc_option(o):
    k = o[0]
    if k in ("ep", "mc", "sdep"):
        _, ver, addr, l4, port = o
        typ = {v: t for t, v in _IPKIND.items()}[(k, ver)]
        packed = ipaddress.ip_address(addr).packed
        body = b"\0" + packed + b"\0" + struct.pack("!BH", l4, port)
    elif k == "lb":
        typ, body = 2, struct.pack("!BHH", 0, o[1], o[2])
    elif k == "cfg":
        typ = 1
        body = bytearray(b"\0")
        for key, val in o[1]:
            s = key.encode("latin-1") if val is None else key.encode("latin-1") + b"=" + val.encode("latin-1")
            body.append(len(s))
            body += s
        body.append(0)
        body = bytes(body)
    elif k == "unk":
        typ, body = o[1], o[2]
    elif k == "raw":  # ("raw", type, body) — whatever bytes the corruptor wants
        typ, body = o[1], o[2]
    else:
        raise ValueError(o)
    return struct.pack("!HB", len(body), typ) + body


# ---------------------------------------------------------------- SD
def dec_sd(payload):
    if len(payload) < 12:
        raise RefError("short sd")
    flags = payload[0]
    (elen,) = struct.unpack("!I", payload[4:8])
    if len(payload) - 8 < elen + 4:
        raise RefError("entries length")
    ebuf = payload[8 : 8 + elen]
    (olen,) = struct.unpack("!I", payload[8 + elen : 12 + elen])
    if len(payload) - 12 - elen < olen:
        raise RefError("options length")
    obuf = payload[12 + elen : 12 + elen + olen]
    rest = bytes(payload[12 + elen + olen :])
    options = []
    while obuf:
        o, obuf = dec_option(obuf)
        options.append(o)
    if elen % 16:
        raise RefError("entries array not a multiple of 16")
    entries = []
    for i in range(0, elen, 16):
        t, oi1, oi2, nn, sid, iid, maj, thi, tlo, val = struct.unpack("!BBBBHHBBHI", ebuf[i : i + 16])
        if t not in ENTRY_TYPES:
            raise RefError("entry type")
        n1, n2 = nn >> 4, nn & 15
        if oi1 + n1 > len(options) or oi2 + n2 > len(options):
            raise RefError("option run out of range")
        if t in (SUBSCRIBE, SUBACK) and val & 0xFFF00000:
            raise RefError("reserved bits of eventgroup entry")
        entries.append(
            Entry(t, sid, iid, maj, (thi << 16) | tlo, val, tuple(options[oi1 : oi1 + n1]), tuple(options[oi2 : oi2 + n2]))
        )
    return SD(flags, bool(flags & 0x80), bool(flags & 0x40), tuple(entries), tuple(options), rest)


def enc_sd(entries, reboot=True, unicast=True, extra_flags=0):
    """entries: iterable of Entry (opts given inline). Options are appended per
    entry, re-using an identical earlier run when there is one."""
    options = []
    ebuf = bytearray()

    def place(run):
        run = list(run)
        if not run:
            return 0, 0
        n = len(run)
        for i in range(0, len(options) - n + 1):
            if options[i : i + n] == run:
                return i, n
        options.extend(run)
        return len(options) - n, n

    for e in entries:
        oi1, n1 = place(e.opts1)
        oi2, n2 = place(e.opts2)
        ebuf += struct.pack(
            "!BBBBHHBBHI", e.type, oi1, oi2, (n1 << 4) | n2, e.service, e.instance, e.major, e.ttl >> 16, e.ttl & 0xFFFF, e.value
        )
    obuf = b"".join(enc_option(o) for o in options)
    flags = (0x80 if reboot else 0) | (0x40 if unicast else 0) | extra_flags
    return bytes([flags, 0, 0, 0]) + struct.pack("!I", len(ebuf)) + bytes(ebuf) + struct.pack("!I", len(obuf)) + obuf


def enc_sd_message(entries, session, reboot=True, unicast=True, **kw):
    return enc_someip(SD_SERVICE, SD_METHOD, 0, session, 1, 2, 0, enc_sd(entries, reboot, unicast, **kw))


def is_sd_header(m):
    return m.service == SD_SERVICE and m.method == SD_METHOD and m.iface == 1 and m.mtype == 2 and m.rc == 0


def classify(m):
    """what a discovery endpoint must do with message m:
    ('sd', SD) decodable SD notification; ('foreign', why) anything else;
    ('unicode', None) the one tolerated escape"""
    if not is_sd_header(m):
        return ("foreign", "header")
    try:
        return ("sd", dec_sd(m.payload))
    except RefUnicode:
        return ("unicode", None)
    except RefError as e:
        return ("foreign", str(e))


def offer(service, instance, major, minor, ttl, opts1=(), opts2=()):
    return Entry(OFFER, service, instance, major, ttl, minor, tuple(opts1), tuple(opts2))


def find(service, instance=0xFFFF, major=0xFF, minor=0xFFFFFFFF, ttl=3):
    return Entry(FIND, service, instance, major, ttl, minor, (), ())


def subscribe(service, instance, major, eventgroup, ttl, counter=0, opts1=(), opts2=()):
    return Entry(SUBSCRIBE, service, instance, major, ttl, (counter << 16) | eventgroup, tuple(opts1), tuple(opts2))


def ep4(addr, port, l4=17):
    return ("ep", 4, addr, l4, port)


def ep6(addr, port, l4=17):
    return ("ep", 6, addr, l4, port)
