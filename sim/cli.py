import os
import sys

VERIF = os.path.dirname(os.path.dirname(os.path.abspath(__file__)))
sys.path.insert(0, VERIF)
os.chdir(VERIF)

from sim import runner  # noqa: E402


def main(argv):
    if not argv:
        print(__doc__ or "usage: check <property> [--tier quick|thorough] | --replay FILE")
        return 2
    if argv[0] == "--selftest":
        import subprocess

        return subprocess.call([sys.executable, os.path.join(VERIF, "selftest", "determinism.py")] + argv[1:])
    if argv[0] == "--replay":
        return runner.replay_main(argv[1])
    pid = argv[0].upper()
    tier = os.environ.get("VERIF_TIER", "quick")
    if "--tier" in argv:
        tier = argv[argv.index("--tier") + 1]
    seed = int(os.environ.get("VERIF_SEED", "20260926"))
    try:
        return runner.check_main(pid, tier, seed)
    except Exception:
        import traceback

        traceback.print_exc()
        print("HARNESS-ERROR: driver failed", file=sys.stderr)
        return 2


if __name__ == "__main__":
    sys.exit(main(sys.argv[1:]))
